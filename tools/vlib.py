"""Shared machinery of the /verif checks: builds (Coq, extracted model, Rust harness), proof audit,
replay/evidence files, known-findings bookkeeping.  Used by ./check."""
import fcntl, hashlib, json, os, re, subprocess, sys, time

VERIF = os.path.dirname(os.path.dirname(os.path.abspath(__file__)))
REPO = os.environ.get("VERIF_REPO", "/repo")
CACHE = os.path.join(VERIF, ".cache")
COQ = os.path.join(VERIF, "coq")
OCAML = os.path.join(VERIF, "ocaml")
# Self-test mode (tools/seedtest.py): VERIF_REPO points at a scratch copy of the repository; the harness is then
# built from a generated copy of harness/ whose path dependencies point there, with its own target, work and
# evidence directories, so that nothing registered in MANIFEST.json is disturbed.
ALT = REPO != "/repo"
WORK = os.path.join(CACHE, "work-alt" if ALT else "work")
EVIDENCE_DIR = os.path.join(CACHE, "evidence-alt") if ALT else os.path.join(VERIF, "evidence")
if ALT:
    # private copies of the Coq development and of the model runner's directory: the translators rewrite
    # coq/Gen from the scratch tree and the extraction is rebuilt from it; the shared ones must not see that
    os.makedirs(os.path.join(CACHE, "alt"), exist_ok=True)
    for _d in ("coq", "ocaml"):
        subprocess.run(["rsync", "-a", "--delete", os.path.join(VERIF, _d) + "/", os.path.join(CACHE, "alt", _d) + "/"], check=True)
    COQ = os.path.join(CACHE, "alt", "coq")
    OCAML = os.path.join(CACHE, "alt", "ocaml")
GUARD = "rbx_dom_verif"
# Coverage mode (tools/coverage.py): the harness is built with -C instrument-coverage into its own target directory and
# every harness process writes a raw profile; evidence goes to a scratch directory.  Diagnostic only (generator quality:
# which lines of the modelled Rust functions the differential runs reach), never used by a registered check.
COV = bool(os.environ.get("VERIF_COVERAGE")) and not ALT
if COV:
    EVIDENCE_DIR = os.path.join(CACHE, "evidence-cov")
    WORK = os.path.join(CACHE, "work-cov")
    os.makedirs(os.path.join(CACHE, "cov"), exist_ok=True)
    os.environ["LLVM_PROFILE_FILE"] = os.path.join(CACHE, "cov", "%p-%16m.profraw")

ALLOWED_AXIOMS = {
    # standard-library axioms a proof may rely on; each use is reported per theorem in the evidence
    "Coq.Logic.FunctionalExtensionality.functional_extensionality_dep",
    "FunctionalExtensionality.functional_extensionality_dep",
    "functional_extensionality_dep",
    "Coq.Logic.Eqdep.Eq_rect_eq.eq_rect_eq", "Eqdep.Eq_rect_eq.eq_rect_eq", "Eq_rect_eq.eq_rect_eq", "eq_rect_eq",
    "Coq.Logic.JMeq.JMeq_eq", "JMeq.JMeq_eq", "JMeq_eq",
    "Coq.Logic.Classical_Prop.classic", "Classical_Prop.classic", "classic",
    "Coq.Logic.ProofIrrelevance.proof_irrelevance", "proof_irrelevance",
}

FORBIDDEN = re.compile(
    r"\b(Admitted|admit|Axiom|Axioms|Parameter|Parameters|Conjecture|Conjectures|Admit Obligations|"
    r"Unset Guard Checking|Unset Positivity Checking|Unset Universe Checking|bypass_check|"
    r"type-in-type|impredicative-set|native_compute)\b")


def log(msg):
    print(msg, flush=True)


def run(cmd, cwd=None, timeout=None, env=None, capture=True):
    e = dict(os.environ)
    e["CARGO_NET_OFFLINE"] = "true"
    if env:
        e.update(env)
    t0 = time.time()
    try:
        p = subprocess.run(cmd, cwd=cwd, env=e, timeout=timeout, shell=isinstance(cmd, str),
                           stdout=subprocess.PIPE if capture else None,
                           stderr=subprocess.STDOUT if capture else None, text=True)
        return p.returncode, (p.stdout or ""), time.time() - t0
    except subprocess.TimeoutExpired as ex:
        out = ex.stdout if isinstance(ex.stdout, str) else (ex.stdout or b"").decode("utf8", "replace")
        return 124, out + "\nTIMEOUT", time.time() - t0


class Lock:
    """serialises builds when several checks run at once"""
    def __init__(self, name):
        os.makedirs(CACHE, exist_ok=True)
        self.path = os.path.join(CACHE, name + ".lock")
    def __enter__(self):
        self.f = open(self.path, "w")
        fcntl.flock(self.f, fcntl.LOCK_EX)
        return self
    def __exit__(self, *a):
        fcntl.flock(self.f, fcntl.LOCK_UN)
        self.f.close()


# ---------------------------------------------------------------- Coq

def coq_files():
    out = []
    for sub in ("Model", "Spec", "Gen", "Proofs", "Properties"):
        d = os.path.join(COQ, sub)
        if os.path.isdir(d):
            for f in sorted(os.listdir(d)):
                if f.endswith(".v"):
                    out.append(sub + "/" + f)
    return out


def write_coqproject():
    files = coq_files()
    text = "-Q . RbxVerif\n-arg -w -arg -notation-overridden,-deprecated-hint-without-locality,-deprecated-instance-without-locality,-ambiguous-paths\n" + "\n".join(files) + "\n"
    p = os.path.join(COQ, "_CoqProject")
    old = open(p).read() if os.path.exists(p) else ""
    if old != text or not os.path.exists(os.path.join(COQ, "Makefile")):
        open(p, "w").write(text)
        rc, out, _ = run("coq_makefile -f _CoqProject -o Makefile", cwd=COQ, timeout=120)
        if rc != 0:
            raise RuntimeError("coq_makefile failed: " + out)


def coq_make(targets, timeout=1500):
    """full .vo build of the given targets (never -vos); returns (ok, output)"""
    with Lock("coq"):
        write_coqproject()
        rc, out, dt = run(["make", "-j16"] + targets, cwd=COQ, timeout=timeout)
    return rc == 0, out


def coq_deps(vfile):
    """transitive closure of project files the given file depends on (including itself)"""
    seen, todo = [], [vfile]
    while todo:
        f = todo.pop()
        if f in seen or not os.path.exists(os.path.join(COQ, f)):
            continue
        seen.append(f)
        text = open(os.path.join(COQ, f)).read()
        for m in re.finditer(r"From\s+RbxVerif\s+Require\s+(?:Import|Export)?\s*([^.]*(?:\.[A-Za-z_][^.\s]*)*)\.", text):
            for name in m.group(1).split():
                name = name.split(".")[-1]
                for sub in ("Model", "Spec", "Gen", "Proofs", "Properties"):
                    cand = sub + "/" + name + ".v"
                    if os.path.exists(os.path.join(COQ, cand)):
                        todo.append(cand)
    return seen


def strip_comments(text):
    out, depth, i = [], 0, 0
    while i < len(text):
        if text.startswith("(*", i):
            depth += 1; i += 2
        elif text.startswith("*)", i) and depth > 0:
            depth -= 1; i += 2
        else:
            if depth == 0:
                out.append(text[i])
            i += 1
    return "".join(out)


def count_obligations(files):
    n = 0
    for f in files:
        text = strip_comments(open(os.path.join(COQ, f)).read())
        n += len(re.findall(r"^\s*(?:Local\s+|Global\s+|#\[[^\]]*\]\s*)?(?:Theorem|Lemma|Example|Corollary|Fact|Proposition|Remark)\s", text, re.M))
    return n


def forbidden_scan(files):
    bad = []
    for f in files:
        text = strip_comments(open(os.path.join(COQ, f)).read())
        for k, line in enumerate(text.split("\n"), 1):
            if FORBIDDEN.search(line):
                bad.append("%s:%d: %s" % (f, k, line.strip()))
    # declarations of Variable/Hypothesis outside a section
    for f in files:
        text = strip_comments(open(os.path.join(COQ, f)).read())
        depth = 0
        for k, line in enumerate(text.split("\n"), 1):
            if re.match(r"\s*Section\s", line):
                depth += 1
            elif re.match(r"\s*End\s", line) and depth > 0:
                depth -= 1
            elif depth == 0 and re.match(r"\s*(Variable|Variables|Hypothesis|Hypotheses|Context)\s", line):
                bad.append("%s:%d: %s (outside a section)" % (f, k, line.strip()))
    return bad


def property_theorems(pid):
    """names of the theorems stated in Properties/<pid>.v"""
    text = strip_comments(open(os.path.join(COQ, "Properties", pid + ".v")).read())
    return re.findall(r"^\s*Theorem\s+([A-Za-z0-9_']+)", text, re.M)


def print_assumptions(pid, names):
    """runs coqc on a generated audit file; returns {theorem: [axioms]} or raises"""
    os.makedirs(WORK, exist_ok=True)
    path = os.path.join(WORK, "Audit_%s.v" % pid)
    with open(path, "w") as f:
        f.write("From RbxVerif Require Import %s.\n" % pid)
        for n in names:
            f.write('Goal True. idtac "@@THM %s". Abort.\nPrint Assumptions %s.\n' % (n, n))
    rc, out, _ = run(["coqc", "-q", "-Q", COQ, "RbxVerif", path], cwd=WORK, timeout=600)
    if rc != 0:
        raise RuntimeError("audit coqc failed:\n" + out[-3000:])
    res, cur = {}, None
    for line in out.split("\n"):
        m = re.match(r"@@THM (\S+)", line)
        if m:
            cur = m.group(1); res[cur] = []
            continue
        if cur is None:
            continue
        if "Closed under the global context" in line or line.strip() in ("", "Axioms:"):
            continue
        m = re.match(r"^([A-Za-z_][A-Za-z0-9_.']*)\s*(:|$)", line)
        if m and not line.startswith(" "):
            res[cur].append(m.group(1))
    return res


# ---------------------------------------------------------------- harness / model builds

def target_dir():
    return os.path.join(CACHE, "target-alt" if ALT else ("target-cov" if COV else "target"))


def harness_bin(profile="debug"):
    return os.path.join(target_dir(), profile, "rbxverif")


def harness_dir():
    h = os.path.join(VERIF, "harness")
    if not ALT:
        return h
    alt = os.path.join(CACHE, "harness-alt")
    os.makedirs(os.path.join(alt, "src"), exist_ok=True)
    for f in os.listdir(os.path.join(h, "src")):
        src, dst = os.path.join(h, "src", f), os.path.join(alt, "src", f)
        text = open(src).read()
        if not os.path.exists(dst) or open(dst).read() != text:
            open(dst, "w").write(text)
    toml = open(os.path.join(h, "Cargo.toml")).read().replace('"/repo/', '"%s/' % REPO)
    if not os.path.exists(os.path.join(alt, "Cargo.toml")) or open(os.path.join(alt, "Cargo.toml")).read() != toml:
        open(os.path.join(alt, "Cargo.toml"), "w").write(toml)
    os.makedirs(os.path.join(alt, ".cargo"), exist_ok=True)
    open(os.path.join(alt, ".cargo", "config.toml"), "w").write("[net]\noffline = true\n")
    return alt


def build_harness(profile="debug", timeout=1500):
    with Lock("cargo"):
        h = harness_dir()
        lock_src = os.path.join(REPO, "Cargo.lock")
        lock_dst = os.path.join(h, "Cargo.lock")
        if not os.path.exists(lock_dst):
            open(lock_dst, "w").write(open(lock_src).read())
        cmd = ["cargo", "build", "--offline"] + (["--release"] if profile == "release" else [])
        env = {"RUSTFLAGS": "--cfg " + GUARD + " -Awarnings" + (" -C instrument-coverage" if COV else ""), "CARGO_TARGET_DIR": target_dir()}
        rc, out, dt = run(cmd, cwd=h, timeout=timeout, env=env)
        if rc != 0 and "Cargo.lock" in out:
            open(lock_dst, "w").write(open(lock_src).read())
            rc, out, dt = run(cmd, cwd=h, timeout=timeout, env=env)
    return rc == 0, out


def build_model(timeout=600):
    with Lock("coq"):
        write_coqproject()
        rc, out, _ = run(["make", "-j16"] + model_vos(), cwd=COQ, timeout=timeout)
        if rc != 0:
            return False, out
        rc, out, _ = run(["sh", os.path.join(OCAML, "build.sh")], cwd=OCAML, timeout=timeout)
    return rc == 0, out


def model_vos():
    """the .vo files the extraction needs: the dependency closure of every Extract/*.v (Extract.v -> model.ml,
    ExtractDb.v -> dbmodel.ml)"""
    deps = []
    for x in sorted(os.listdir(os.path.join(COQ, "Extract"))):
        if x.endswith(".v"):
            deps += [f for f in coq_deps("Extract/" + x) if not f.startswith("Extract/") and f not in deps]
    return [f[:-2] + ".vo" for f in deps]


MODELRUN = os.path.join(OCAML, "modelrun")


# ---------------------------------------------------------------- case files

def read_blocks(path):
    """[(id, [lines])] of a 'case id / ... / end' file"""
    out, cur = [], None
    if not os.path.exists(path):
        return out
    for line in open(path):
        line = line.rstrip("\n")
        if line.startswith("case "):
            cur = (line[5:], [])
        elif line == "end":
            if cur is not None:
                out.append(cur)
            cur = None
        elif cur is not None and line.strip():
            cur[1].append(line)
    return out


def write_blocks(path, blocks):
    with open(path, "w") as f:
        for cid, lines in blocks:
            f.write("case %s\n" % cid)
            for l in lines:
                f.write(l + "\n")
            f.write("end\n")


# ---------------------------------------------------------------- known findings

def known_findings():
    """entries of /verif/known-findings.txt: [(kind, property, key, text)], kind in known|fixed"""
    out = []
    p = os.path.join(VERIF, "known-findings.txt")
    if os.path.exists(p):
        for line in open(p):
            line = line.strip()
            if not line or line.startswith("#"):
                continue
            m = re.match(r"(known|fixed):\s+property=(\S+)\s+(?:key=(\S+)\s+)?(.*)", line)
            if m:
                out.append((m.group(1), m.group(2), m.group(3) or "", m.group(4)))
    return out


def known_keys(pid):
    return {k: t for kind, p, k, t in known_findings() if kind == "known" and p == pid}


# ---------------------------------------------------------------- replay + evidence

def write_replay(pid, kind, what, body_lines, broken=None):
    d = os.path.join(EVIDENCE_DIR, "replays")
    os.makedirs(d, exist_ok=True)
    text = "\n".join(body_lines)
    h = hashlib.sha1((kind + what + text).encode()).hexdigest()[:12]
    path = os.path.join(d, "%s-%s.case" % (pid, h))
    with open(path, "w") as f:
        f.write("# replay file written by /verif/check\n")
        f.write("property=%s\nkind=%s\nwhat=%s\n" % (pid, kind, what.replace("\n", " ")))
        if broken:
            f.write("broken=%s\n" % broken.replace("\n", " "))
        f.write("---\n")
        f.write(text + "\n")
    return path


def read_replay(path):
    meta, body, inbody = {}, [], False
    for line in open(path):
        line = line.rstrip("\n")
        if inbody:
            body.append(line)
        elif line == "---":
            inbody = True
        elif "=" in line and not line.startswith("#"):
            k, v = line.split("=", 1)
            meta[k] = v
    return meta, body


def write_evidence(pid, tier, seed, coverage, assumptions, wall, violations):
    d = EVIDENCE_DIR
    os.makedirs(d, exist_ok=True)
    ev = {"property_id": pid, "tier": tier, "seed": seed, "level": "proof", "coverage": coverage,
          "assumptions": assumptions, "wall_s": round(wall, 2), "violations": violations}
    with open(os.path.join(d, pid + ".json"), "w") as f:
        json.dump(ev, f, indent=1, sort_keys=True)
        f.write("\n")
