#!/usr/bin/env python3
"""Regenerates MANIFEST.json from the table below (run after adding a property check)."""
import json, os, subprocess
V = os.path.dirname(os.path.dirname(os.path.abspath(__file__)))
props = [json.loads(l) for l in open(os.path.join(V, "properties.jsonl"))]
BASE_NOTE = ("Trusted: Coq 8.16.1 kernel (full .vo build, Print Assumptions audited against an allow-list, no Admitted/Axiom: grep-enforced); "
             "the hand-written Gallina model is tied to /repo by the differential correspondence run (Rust harness built against /repo's working tree with "
             "--cfg rbx_dom_verif + the model extracted with ExtrOcamlBasic only), whose strength is bounded by the generator (distribution in the evidence). ")
CLAIMED = {
 "C01": ("Proved about the executable model of rbx_binary (Model/BinValues.v, BinFile.v): per wire type, what the column encoder writes the column decoder reads back bit for bit and leaves the rest of the chunk untouched "
         "(Bool, Int32, Int64, Float32 incl. every NaN payload, Enum, BrickColor, Vector2, Vector3, Color3, UDim, Ref through the referent numbering, Ray, NumberRange, Faces, Axes, SecurityCapabilities), the widening columns, "
         "the model's wire-id tables equal the tables regenerated from types.rs; the explicit-stack loop of add_instances yields exactly the post-order of the chosen non-overlapping subtrees (fuel 3*size+3); chunk framing "
         "(compressed under the law decompress(compress x) = x) and the file header round-trip; computed whole-file round trip of a sample DOM; refutation witnesses for the pre-repair arms. The forest-level theorem for arbitrary DOMs and "
         "the remaining column types are NOT proved: they are decided per case by the binfile differential correspondence (file bytes identical for CompressionType::None, de-framed chunk payloads identical for LZ4/Zstd, decoded DOMs "
         "identical) plus an implementation-side round-trip oracle that permits exactly the normalisations listed in the property.", "5/C01, A1",
         "Hash iteration orders, Color3->Color3uint8 quantisation and blake3 hashes are parameters of the model supplied per case from the implementation; lz4/zstd are not modelled."),
 "C07": ("Proved: the value a class column takes from an instance is a function of the instance's property MAP (any two iteration orders of the same map give the same column value); computed: saving what was loaded from a sample file "
         "reproduces it byte for byte. The whole-file statement is NOT proved; it is exercised on the implementation for BOTH formats: each generated DOM is rebuilt with fresh Refs and shuffled property insertion and must serialize "
         "to identical bytes / text, save(load(save d)) must be a fixed point, and the same cases serialized in a SECOND PROCESS (other hash seeds) must give the same bytes / text.", "5/C07, 6/F14",
         "PARTIAL: determinism is a statement about hash-map iteration order, exercised not proved; the model reproduces the implementation's bytes under the observed orders."),
 "C08": ("Proved on the model: an instance carrying the canonical property keeps its own value in the class column, also under an alias spelling, and an instance carrying no spelling gets the column default, never a neighbour's value; "
         "computed on a three-descriptor database that each instance alone and both sibling orders serialize and read back their own colour (the shape that failed before 73fe0ea9). Totality / permutation invariance for arbitrary "
         "same-class sets is NOT proved: decided per case by the binfile correspondence on same-class sets plus the implementation oracle that serializes every sibling permutation (<= 4 instances), requires success iff each instance "
         "succeeds alone, and checks own values / defaults after reading back.", "5/C08", ""),
 "C02": ("Proved about the executable model of rbx_xml (Model/XmlEvents, XmlValues, XmlFile): character data survives writer -> emitter -> parser -> reader for every string (CDATA switch, `]]>` splitting, coalescing); "
         "decimal text of every integer width and base64 read back exactly; per-type round trips read_xml(channel(write_xml v)) = v for String, Bool, Int32, Int64, Enum, BinaryString, Float32/64 (under the stated Display/FromStr law), "
         "Vector3, BrickColor->Int32; the Name element of a class without a Name descriptor is read and kept; an explicit new value survives beside a migrating legacy property; refutation: Content::Object panics the writer. "
         "The forest-level statement for arbitrary DOMs is NOT proved: it is decided per case by the xmlfile/xmlchannel differential correspondence (event lists, decoded DOMs and error classes identical to the implementation) "
         "plus an implementation-side round-trip oracle against the source DOM for the retained option pairings.", "5/C02, notes/xml-format.md",
         "Float text, Color3 quantisation, u8/255 and blake3 hashes are oracle tables supplied per case by the harness (a missing entry is TABLE-MISS, never a guess); xml-rs itself is not modelled (`channel` is validated on random event lists every run); "
         "generated values are size-capped (48 keypoints, 3000 blob bytes, 4000 string bytes). `_pinned` theorems record pre-repair behaviour."),
 "C05": ("Writer model: every document is one `roblox` element of version 4; referents are decimal numbers, never `null`; an empty reference is written `null`; a written SharedString enters the emitted dictionary. Reader model: forward references and the "
         "dictionary are resolved; with IgnoreUnknown a property without a descriptor leaves the parse state (both rewrite queues) and the property map unchanged. Writer direction decided per case by Python's expat + tools/xmlcheck.py "
         "(layout from docs/xml.md) on the real text and by the extracted decoder written from docs/xml.md (Spec/XmlSpec.v); reader direction by documents of an independent writer (UUID referents, shuffled properties, Meta/External, CDATA, "
         "wrapped base64, alternative float spellings, dictionary first) against the logical DOM they describe.", "5/C05, notes/xml-format.md",
         "Agreement of xspec_decode with xml_encode for arbitrary DOMs is not proved (checked per case); same oracle-table / xml-rs / size-cap assumptions as C02."),
 "C03": ("An independent codec written from docs/binary.md only (Spec/BinSpec.v, with its own LZ4 block decoder Spec/Lz4.v) is proved to round-trip with itself for every well-formed logical file, every per-chunk compression choice "
         "{none, LZ4-literal}, either rotation choice and all 31 documented types (bspec_roundtrip, bs_col_roundtrip), its successful decode is proved to imply the structural clauses (header counts, unique class ids, one PRNT, one value "
         "per instance, chunk lengths, uncompressed END holding </roblox>), and the LZ4 decoder is total. Extracted, it decodes every file the real serializer writes (3 compression modes; zstd inflated by the crate) and the result is "
         "compared with the source DOM; the remaining clauses (PRNT lists every instance once children-first, SSTR distinct, class names distinct) are evaluated per file.", "5/C03",
         "The document is followed where it and the implementation differ: those differences are listed as known findings (doc-*). Zstandard inflation uses the zstd crate (not independent)."),
 "C04": ("The same independent specification, used as an encoder: bspec_encode with `choices` (compression per chunk incl. real LZ4/Zstd re-framing, chunk order, sparse/negative referents and class ids, PRNT row order, META/unknown chunks, "
         "service format, narrower numeric columns, PROP ending after its name, unknown type ids) produces files that are fed to the real rbx_binary::from_reader and compared with the DOM the logical file describes; the spec's own "
         "round trip is proved (see C03); widening Int32->Int64 and Float32->Float64 is proved on the binary reader model (col_widen_*).", "5/C04",
         "bspec_roundtrip is proved for the canonical chunk order; other orders are covered by the per-case self round trip. Readings of the document where it is ambiguous are explicit parameters (bs_reading)."),
 "C06": ("Schema level proved: both codecs' descriptor lookups agree on every coherent database (same canonical and serialized descriptor; only DoesNotSerialize differs), and the bundled database is coherent (regenerated and re-proved every run). "
         "Value level decided per case on the implementation: DOMs inside the property's quantifier are written by rbx_binary and rbx_xml, read back by both real readers and the two decoded DOMs compared instance by instance.", "5/C06",
         "PARTIAL: the value-level agreement of the two decoders is exercised, not proved (it would be the composition of the C01 and C02 forest theorems, which are not proved at forest level)."),
 "C15": ("Proved about the migration function over tables regenerated from migration.rs / brick_color.rs and the regenerated database: the migrated value is a function of the legacy value alone (the four paths call one function), result types, "
         "totality for both booleans, every URI and every BrickColor of the table; refutation for Enum.Font items above 45 (known finding); 12 Migrate pairs. The four real paths are exercised for all pairs x values x presence/order of the new property "
         "(XML write/read via xmlfile-run stream mig; binary via binfile-run).", "5/C15",
         "PARTIAL: path agreement and explicit-wins are decided per case on the implementation; the Coq models of the writers/readers contain the migration steps (XmlFile.v, BinFile.v) but no four-path theorem is proved."),
 "C09": ("Invariant over all operation histories: `Rep` (concrete table = flattening of a duplicate-free rose forest) implies every clause of the property (rep_wf), "
         "and is preserved by each operation (refinement lemmas); the concrete model of dom.rs is compared with the real WeakDom after every step of generated histories, "
         "and a Rust oracle of the clause list runs on the real DOMs.", "5/C09, A3",
         "Allocator freshness (Ref::new, UniqueId::now) is a hypothesis. Theorems proven are listed in evidence coverage.theorems; operations whose refinement lemma is not yet "
         "proven are covered by the correspondence and the oracle only."),
 "C10": ("Refinement to the plain-ordered-tree specification (Model/Tree.v): per-operation refinement lemmas; the extracted specification itself is executed next to the real DOM "
         "after every step, so a disagreement is a concrete failing history.", "5/C10", ""),
 "C11": ("Clone rule (copy isomorphic, Refs rewritten inside/kept if in destination/nulled otherwise) stated in the rose-tree specification and as refinement of the concrete clone loops; "
         "implementation compared with the extracted concrete model and checked by an independent Rust oracle of the rule.", "5/C11", ""),
 "C12": ("UniqueId uniqueness is part of `Rep`/`WF` (NoDup of ids, id set = ids held) and of the refinement lemmas; implementation compared with the model on histories with colliding ids.", "5/C12",
         "fetch_add atomicity of UniqueId::now is hardware/runtime, exercised not proven."),
 "C13": ("What a proof can carry: the decoder models make every Rust panic site an explicit `Panic` outcome and the models' loops have explicit fuel, so no-panic / termination are statements over all byte strings "
         "(attribute decoder: attr_decode_total; binary decoder: decode_file_total — for every database passing the C16 coherence check, every allocation limit and every inflate oracle the modelled from_reader returns a DOM or an error on EVERY byte string, never Panic, never OutOfFuel; its outcome class and decoded DOM are compared with the implementation on mutated and truncated files); elementary laws of truncation, reader delivery and sink failure are proved in Properties/C13.v. "
         "What lives in std::io adapters, xml-rs and the process (reader delivery, sink faults, stack depth, allocation sizes) is EXERCISED on the implementation by the fault harness: every truncation offset of a fixed set of "
         "valid files in all formats (exhaustive), 1-byte / random / Interrupted readers, a failing sink at every output offset (exhaustive), ~2*10^5 mutations with a panic hook, a hang watchdog, an allocation probe and child processes.",
         "5/C13", "PARTIAL BY NATURE: the reader-delivery, sink-fault, XML-decoder, stack and allocation clauses are implementation-side exercise, not theorems; allocation-site keys depend on the build profile."),
 "C14": ("Byte-level round-trip law proved for all attribute maps and all 19 supported types (attr_roundtrip: wf_amap m -> attr_encode m = Ok b -> attr_decode b = Ok (norm m), with norm exactly the "
         "permitted normalisations), empty map <-> zero bytes, type-id table injective, all 24 rotation ids round-trip, the document's rotation table equals the code's, snapping only within epsilon of a basis; "
         "an independent codec written from docs/attributes.md (Spec/AttrSpec.v) is run against every implementation blob and its blobs are fed to the real reader; model, spec and implementation are compared "
         "byte for byte on generated maps, all BrickColor numbers, all type ids, truncations and mutations.", "5/C14",
         "f32 comparisons of approx_unit_or_zero are modelled by integer thresholds on bit patterns, validated against the real function by a sweep (2^32 in the thorough tier)."),
 "C17": ("Pure hand-written conversions proved over executable models: Ref text round trip for all 2^128 values, UniqueId text round trip for all ids, BrickColor number/name/colour over the regenerated table "
         "for all 2^16 numbers, Faces/Axes for all bytes, Tags round trip iff no empty/NUL tag, MaterialColors 69-byte law and observational round trip; models compared line-exactly with rbx_types (exhaustive over "
         "the finite domains); every Variant type through four serde_json entry points, bincode and rmp-serde on the implementation; rbx_dom_lua/src/allValues.json exhaustively.", "5/C17",
         "serde_json, bincode, rmp-serde and derive-generated code are exercised, not modelled (partial by nature); the fixture has no samples of 5 types."),
 "C16": ("Translator + finite exhaustive proof + general lemmas: the database the crates really load is regenerated into Coq (Gen/Database.v) on every run and "
         "`db_coherent database = true` (every clause of the property, all 797 classes / 3242 descriptors / 458 enums / 7231 defaults) is re-proved by vm_compute; for ANY database passing "
         "the check both descriptor lookups and the default lookup are total (no panic, no fuel exhaustion) and agree up to DoesNotSerialize; the two Rust copies of find_property_descriptors "
         "are compared exhaustively with the model, and all 797 default instances are round-tripped through both real codecs.", "5/C16",
         "The translator (harness dbdump + tools/translate.py) is trusted; rbx_reflector's generation from a Roblox dump is out of scope (the coherence check applies to whatever database.msgpack is in the tree)."),
 "C18": ("Invariant over all interleavings of the intern-table transition system (any number of threads, programs, steps): at most one live buffer per content, quiescent table empty, "
         "handle bytes stable, no stuck step / no deadlock for slot-linear programs; refutation witness for the pinned clean-up; real threads are driven through the yield hook under "
         "enforced schedules (exhaustive for small programs) and compared step by step with the extracted model.", "5/C18, A5",
         "Atomicity granularity (critical section of new, Arc::into_inner) is assumed; weak-memory effects below it are not modelled."),
}
checks = []
for p in props:
    pid = p["id"]
    if pid in CLAIMED:
        text, ref, extra = CLAIMED[pid]
        checks.append({
            "property_id": pid, "quick_cmd": "./check %s --tier quick" % pid, "thorough_cmd": "./check %s --tier thorough" % pid,
            "evidence_file": "/verif/evidence/%s.json" % pid, "replay_cmd_template": "./check %s --replay {path}" % pid,
            "engine": "coq-proof+correspondence",
            "level_claimed": {"category": "proof", "text": text, "design_ref": "DESIGN.md section " + ref},
            "level_note": BASE_NOTE + extra,
            "technique": "machine-checked proof in Coq (Rocq) over an executable model + differential correspondence with the implementation"})
na = [{"property_id": p["id"], "reason": "check still under construction in this round (model and theorems are planned in DESIGN.md section 5); not claimed yet"}
      for p in props if p["id"] not in CLAIMED]
hooks = subprocess.run(["git", "-C", "/repo", "log", "--format=%h %s", "--grep=^verif hook"], capture_output=True, text=True).stdout.strip().split("\n")
m = {"version": 1, "setup_cmd": "sh setup.sh",
     "hooks": {"guard": "rbx_dom_verif",
               "enable": "RUSTFLAGS=\"--cfg rbx_dom_verif\" cargo build --offline in /verif/harness (path dependencies on /repo's crates)",
               "baseline_off_cmd": "cd /repo && cargo test --workspace --no-fail-fast --offline",
               "source_commits": [h for h in hooks if h], "add_only": True},
     "engines": [{"name": "coq-proof+correspondence", "path": "/verif/check", "serves_properties": sorted(CLAIMED),
                  "kind_free_text": "Coq 8.16.1 development (coq/), extracted OCaml model runner (ocaml/), Rust harness on /repo (harness/), Python driver (check, tools/)"}],
     "checks": checks, "not_applicable": na,
     "notes": "See DESIGN.md. known-findings.txt lists recorded findings and fix: commits made in /repo."}
json.dump(m, open(os.path.join(V, "MANIFEST.json"), "w"), indent=1)
print("claimed:", sorted(CLAIMED), "unclaimed:", [x["property_id"] for x in na])
