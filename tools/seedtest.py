#!/usr/bin/env python3
"""seedtest.py <property> <mutant-dir> <name> [--checks C09,C10]
Confirms a seeded change (patch.diff + demo.rs + meta.txt) in a scratch worktree of /repo:
  the tree with the patch compiles, the set of passing baseline tests does not shrink, the
  demonstration fails with the patch and passes without it;
then applies it to /repo, runs the named checks, reverts /repo, and stores everything under
/verif/seeded/<name>/ (patch.diff, demo.rs, meta.json with what was run and which checks caught it)."""
import json, os, re, shutil, subprocess, sys, time

VERIF = os.path.dirname(os.path.dirname(os.path.abspath(__file__)))
WT = "/var/tmp/seed-verify"


def sh(cmd, cwd=None, timeout=3600, env=None):
    e = dict(os.environ); e["CARGO_NET_OFFLINE"] = "true"
    if env: e.update(env)
    p = subprocess.run(cmd, cwd=cwd, shell=True, stdout=subprocess.PIPE, stderr=subprocess.STDOUT, text=True, timeout=timeout, env=e)
    return p.returncode, p.stdout


def passing_tests(out):
    return set(m.group(1) for m in re.finditer(r"^test (\S+) \.\.\. ok", out, re.M))


def run_suite(cwd):
    rc, out = sh("cargo test --workspace --no-fail-fast --offline 2>&1", cwd=cwd, timeout=3600)
    return passing_tests(out), out


def main():
    pid, mdir, name = sys.argv[1], sys.argv[2], sys.argv[3]
    checks = [pid]
    if "--checks" in sys.argv:
        checks = sys.argv[sys.argv.index("--checks") + 1].split(",")
    patch = os.path.join(mdir, "patch.diff")
    demo = os.path.join(mdir, "demo.rs")
    meta_txt = open(os.path.join(mdir, "meta.txt")).read() if os.path.exists(os.path.join(mdir, "meta.txt")) else ""
    prev = os.path.join(VERIF, "seeded", name, "meta.json")
    if not meta_txt.strip() and os.path.exists(prev):
        meta_txt = json.load(open(prev)).get("what_it_needs", "")
    report = {"property": pid, "name": name, "what_it_needs": meta_txt.strip(), "ran": []}
    # ---- scratch worktree
    if not os.path.isdir(WT):
        sh("git -C /repo worktree add -q --detach %s HEAD" % WT)
    sh("git checkout -q --detach $(git -C /repo rev-parse HEAD) && git checkout -- . && git clean -fdq -e target", cwd=WT)
    base_file = os.path.join(WT, "target", "baseline-%s.json" % subprocess.run("git -C /repo rev-parse --short HEAD", shell=True, capture_output=True, text=True).stdout.strip())
    if os.path.exists(base_file):
        base = set(json.load(open(base_file)))
    else:
        base, _ = run_suite(WT)
        os.makedirs(os.path.dirname(base_file), exist_ok=True)
        json.dump(sorted(base), open(base_file, "w"))
    report["baseline_passing"] = len(base)
    rc, out = sh("git apply --check %s && git apply %s" % (patch, patch), cwd=WT)
    if rc != 0:
        print("patch does not apply:", out); return 2
    withp, outp = run_suite(WT)
    lost = sorted(base - withp)
    report["tests_lost_with_patch"] = lost
    report["ran"].append("cargo test --workspace --no-fail-fast --offline (scratch worktree, with patch): %d passing, %d of the baseline lost" % (len(withp), len(lost)))
    # ---- demonstration
    demo_ok = None
    if os.path.exists(demo):
        head = open(demo).read().split("\n")[0]
        m = re.search(r"place at (\S+)", head)
        if m:
            dst = os.path.join(WT, m.group(1))
            os.makedirs(os.path.dirname(dst), exist_ok=True)
            shutil.copy(demo, dst)
            crate = m.group(1).split("/")[0]
            tname = os.path.splitext(os.path.basename(dst))[0]
            feats = " --features serde" if crate == "rbx_types" else ""
            env = {"RUSTFLAGS": "--cfg rbx_dom_verif"} if "rbx_dom_verif" in open(demo).read() else None
            cmd = "cargo test -p %s --test %s --offline%s 2>&1 | tail -15" % (crate, tname, feats)
            rc1, o1 = sh(cmd, cwd=WT, env=env)
            fails_with = "test result: FAILED" in o1 or "panicked" in o1 or "error" in o1.lower() and "test result: ok" not in o1
            sh("git apply -R %s" % patch, cwd=WT)
            rc2, o2 = sh(cmd, cwd=WT, env=env)
            passes_without = "test result: ok" in o2 and "FAILED" not in o2
            demo_ok = bool(fails_with and passes_without)
            report["demo"] = {"cmd": cmd, "fails_with_patch": bool(fails_with), "passes_without_patch": bool(passes_without),
                              "with_tail": o1[-600:], "without_tail": o2[-400:]}
            os.remove(dst)
        else:
            report["demo"] = "no `place at` header"
    sh("git checkout -- . && git clean -fdq -e target", cwd=WT)
    report["confirmed"] = (not lost) and bool(demo_ok)
    # ---- run the checks against the change applied in the scratch worktree (VERIF_REPO = self-test mode:
    # separate harness build, work and evidence directories; /repo itself is not touched)
    caught = {}
    rc, out = sh("git apply %s" % patch, cwd=WT)
    try:
        for c in checks:
            t0 = time.time()
            rc, out = sh("./check %s" % c, cwd=VERIF, timeout=3600, env={"VERIF_REPO": WT})
            vio = [l for l in out.split("\n") if l.startswith("VIOLATION")]
            caught[c] = {"exit": rc, "violation_lines": vio, "wall_s": round(time.time() - t0, 1),
                         "why": [l for l in out.split("\n") if l.startswith("# ")][:2]}
            report["ran"].append("VERIF_REPO=<scratch worktree with the change> ./check %s: exit %d" % (c, rc))
    finally:
        sh("git checkout -- . && git clean -fdq -e target", cwd=WT)
    report["caught_by"] = [c for c in caught if caught[c]["exit"] == 1 and caught[c]["violation_lines"]]
    report["checks"] = caught
    out_dir = os.path.join(VERIF, "seeded", name)
    os.makedirs(out_dir, exist_ok=True)
    if os.path.abspath(patch) != os.path.abspath(os.path.join(out_dir, "patch.diff")):
        shutil.copy(patch, os.path.join(out_dir, "patch.diff"))
        if os.path.exists(demo):
            shutil.copy(demo, os.path.join(out_dir, "demo.rs"))
    json.dump(report, open(os.path.join(out_dir, "meta.json"), "w"), indent=1)
    print(json.dumps({k: report[k] for k in ("name", "confirmed", "tests_lost_with_patch", "caught_by")}, indent=1))
    if "demo" in report and isinstance(report["demo"], dict):
        print("demo fails with patch:", report["demo"]["fails_with_patch"], "passes without:", report["demo"]["passes_without_patch"])
    return 0


if __name__ == "__main__":
    sys.exit(main())
