"""TRANSLATOR: regenerates /verif/coq/Gen/*.v from the source text of /repo (and, for the reflection
database, from what the crates really load, through `rbxverif dbdump`).

  Gen/MigrationTables.v   FontToFontFace match of rbx_reflection/src/migration.rs (number -> family, weight,
                          style; weights/styles through FontWeight::as_u16 / FontStyle::as_u8 of
                          rbx_types/src/font.rs) and the make_brick_color! table of rbx_types/src/brick_color.rs
  Gen/BinaryTypes.v       rbx_binary/src/types.rs (Type ids, Type::from_rbx_type), the per-wire-type accepted
                          Variant arms of serialize_properties and fallback_default_value
                          (rbx_binary/src/serializer/state.rs), the conversion pairs of rbx_xml/src/conversion.rs,
                          with VariantType numbered by position in make_variant! (rbx_types/src/variant.rs)
  Gen/Database.v          `rbxverif dbdump` (needs the built harness)

FAILS CLOSED: a table that cannot be found or parsed raises TranslateError; an empty table is never
written.  Files are rewritten only when their content changed, so `make` stays incremental."""
import os, re, subprocess, sys

sys.path.insert(0, os.path.dirname(os.path.abspath(__file__)))
import vlib

GEN = os.path.join(vlib.COQ, "Gen")


class TranslateError(RuntimeError):
    pass


def need(cond, msg):
    if not cond:
        raise TranslateError("translator: " + msg)


def src(rel):
    p = os.path.join(vlib.REPO, rel)
    need(os.path.exists(p), "source file %s not found" % p)
    return open(p, encoding="utf8").read()


def write_if_changed(path, text):
    os.makedirs(os.path.dirname(path), exist_ok=True)
    if os.path.exists(path) and open(path, encoding="utf8").read() == text:
        return False
    tmp = path + ".tmp"
    with open(tmp, "w", encoding="utf8") as f:
        f.write(text)
    os.replace(tmp, path)
    return True


def coq_str(s):
    need(all(0x20 <= ord(c) < 0x7f for c in s), "string %r is not printable ASCII" % s)
    return '"' + s.replace('"', '""') + '"'


def block_after(text, anchor_re, what):
    """the brace-balanced block `{ ... }` that follows the first match of anchor_re (anchor ends before `{`)"""
    m = re.search(anchor_re, text)
    need(m, "%s: anchor /%s/ not found" % (what, anchor_re))
    i = text.index("{", m.end() - 1) if text[m.end() - 1] != "{" else m.end() - 1
    depth, j = 0, i
    while j < len(text):
        ch = text[j]
        if ch == "{":
            depth += 1
        elif ch == "}":
            depth -= 1
            if depth == 0:
                return text[i + 1:j]
        elif ch == '"':                       # skip string literals
            j += 1
            while text[j] != '"':
                j += 2 if text[j] == "\\" else 1
        elif text.startswith("//", j):        # skip line comments
            j = text.index("\n", j)
        j += 1
    raise TranslateError("translator: %s: unbalanced block" % what)


def strip_line_comments(text):
    return re.sub(r"//[^\n]*", "", text)


# ------------------------------------------------------------------ font.rs / migration.rs / brick_color.rs

def enum_match_table(text, fn_name, enum_name):
    """`pub fn <fn_name>(self) -> .. { match self { Enum::A => 1, ... } }` -> {A: 1}"""
    body = block_after(text, r"pub fn %s\s*\(\s*self\s*\)\s*->\s*\w+\s*\{" % fn_name, fn_name)
    pairs = re.findall(r"%s::(\w+)\s*=>\s*(\d+)\s*," % enum_name, body)
    need(pairs, "%s: no arms" % fn_name)
    d = {k: int(v) for k, v in pairs}
    need(len(d) == len(pairs), "%s: duplicate arms" % fn_name)
    return d


def enum_variants_and_default(text, enum_name):
    body = block_after(text, r"pub enum %s\s*\{" % enum_name, "enum " + enum_name)
    body = strip_line_comments(body)
    variants = re.findall(r"(?:#\[default\]\s*)?([A-Z]\w*)\s*,", body)
    m = re.search(r"#\[default\]\s*([A-Z]\w*)", body)
    need(variants and m, "enum %s: variants or #[default] not found" % enum_name)
    return variants, m.group(1)


def font_tables():
    ft = src("rbx_types/src/font.rs")
    weights = enum_match_table(ft, "as_u16", "FontWeight")
    styles = enum_match_table(ft, "as_u8", "FontStyle")
    wv, wdef = enum_variants_and_default(ft, "FontWeight")
    sv, sdef = enum_variants_and_default(ft, "FontStyle")
    need(set(wv) == set(weights) and set(sv) == set(styles), "font.rs: as_u16/as_u8 do not cover the enums")
    # Font::regular(family) = Font { family, ..Default::default() }, Default = FontWeight::default(), FontStyle::default(), None
    reg = block_after(ft, r"pub fn regular\s*\(\s*family\s*:\s*&str\s*\)\s*->\s*Self\s*\{", "Font::regular")
    need(re.search(r"family\s*:\s*family\.to_owned\(\)\s*,\s*\.\.Default::default\(\)", reg), "Font::regular is no longer `Self { family, ..Default::default() }`")
    dflt = block_after(ft, r"impl Default for Font\s*\{", "impl Default for Font")
    need(re.search(r"weight\s*:\s*FontWeight::default\(\)", dflt) and re.search(r"style\s*:\s*FontStyle::default\(\)", dflt)
         and re.search(r"cached_face_id\s*:\s*None", dflt), "impl Default for Font changed shape")
    new = block_after(ft, r"pub fn new\s*\(\s*family\s*:\s*&str\s*,\s*weight\s*:\s*FontWeight\s*,\s*style\s*:\s*FontStyle\s*\)\s*->\s*Self\s*\{", "Font::new")
    need(re.search(r"cached_face_id\s*:\s*None", new), "Font::new no longer sets cached_face_id: None")
    return weights, styles, weights[wdef], styles[sdef]


def font_migration():
    weights, styles, wreg, snorm = font_tables()
    mig = src("rbx_reflection/src/migration.rs")
    arm = block_after(mig, r"MigrationOperation::FontToFontFace\s*=>\s*\{", "FontToFontFace arm")
    body = block_after(arm, r"Ok\s*\(\s*match\s+value\s*\{", "FontToFontFace value match")
    rows, pos = [], 0
    pat = re.compile(r"(\d+)\s*=>\s*Font::(regular|new)\s*\(")
    while True:
        m = pat.search(body, pos)
        if not m:
            break
        # arguments up to the matching parenthesis
        depth, j = 1, m.end()
        while depth:
            if body[j] == '"':
                j += 1
                while body[j] != '"':
                    j += 2 if body[j] == "\\" else 1
            elif body[j] == "(":
                depth += 1
            elif body[j] == ")":
                depth -= 1
            j += 1
        args = body[m.end():j - 1]
        fam = re.match(r'\s*"([^"\\]*)"', args)
        need(fam, "FontToFontFace arm %s: family literal not found" % m.group(1))
        if m.group(2) == "regular":
            need(re.fullmatch(r'\s*"[^"\\]*"\s*,?\s*', args), "FontToFontFace arm %s: unexpected arguments" % m.group(1))
            w, s = wreg, snorm
        else:
            mm = re.fullmatch(r'\s*"[^"\\]*"\s*,\s*FontWeight::(\w+)\s*,\s*FontStyle::(\w+)\s*,?\s*', args)
            need(mm and mm.group(1) in weights and mm.group(2) in styles, "FontToFontFace arm %s: weight/style not understood" % m.group(1))
            w, s = weights[mm.group(1)], styles[mm.group(2)]
        rows.append((int(m.group(1)), fam.group(1), w, s))
        pos = j
    # every numeric arm must have been understood
    narms = len(re.findall(r"(?m)^\s*\d+\s*=>", body))
    need(rows and narms == len(rows), "FontToFontFace: %d numeric arms, %d understood" % (narms, len(rows)))
    need(len({r[0] for r in rows}) == len(rows), "FontToFontFace: duplicate numbers")
    need(re.search(r"_\s*=>\s*\{\s*return Err", body), "FontToFontFace: the catch-all arm is no longer an error")
    return sorted(rows)


def brick_colors():
    bc = src("rbx_types/src/brick_color.rs")
    m = re.search(r"(?m)^make_brick_color!\s*\(\s*\{", bc)
    need(m, "make_brick_color! invocation not found")
    body = block_after(bc[m.start():], r"make_brick_color!\s*\(\s*\{", "make_brick_color! table")
    body = strip_line_comments(body)
    rows = re.findall(r'\[\s*(\w+)\s*,\s*"([^"\\]*)"\s*,\s*(\d+)\s*,\s*\(\s*(\d+)\s*,\s*(\d+)\s*,\s*(\d+)\s*\)\s*\]\s*,', body)
    nrows = len(re.findall(r"(?m)^\s*\[", body))
    need(rows and nrows == len(rows), "make_brick_color!: %d rows, %d understood" % (nrows, len(rows)))
    out = [(int(v), name, int(r), int(g), int(b)) for _e, name, v, r, g, b in rows]
    need(len({r[0] for r in out}) == len(out), "make_brick_color!: duplicate numbers")
    need(all(r[2] < 256 and r[3] < 256 and r[4] < 256 and r[0] < 65536 for r in out), "make_brick_color!: component out of range")
    # to_color3uint8 / from_number must still be the plain table walks
    need(re.search(r"BrickColor::\$enum\s*=>\s*Color3uint8::new\(\$color3_r,\s*\$color3_g,\s*\$color3_b\)", bc), "to_color3uint8 is no longer the table")
    need(re.search(r"\$value\s*=>\s*Some\(BrickColor::\$enum\)", bc), "from_number is no longer the table")
    return out


def render_migration_tables():
    fonts, bricks = font_migration(), brick_colors()
    o = ["(* GENERATED by tools/translate.py from rbx_reflection/src/migration.rs, rbx_types/src/font.rs and",
         "   rbx_types/src/brick_color.rs -- do not edit.  %d FontToFontFace arms, %d BrickColors. *)" % (len(fonts), len(bricks)),
         "From RbxVerif Require Import Db.", "Open Scope N_scope.", "Open Scope string_scope.", "",
         "(* Enum.Font value -> (family, FontWeight::as_u16, FontStyle::as_u8); any other value is a MigrationError *)",
         "Definition font_migration_table : font_table :=",
         " [" + ";\n  ".join("(%d,(%s,%d,%d))" % (n, coq_str(f), w, s) for n, f, w, s in fonts) + "].", "",
         "(* BrickColor number -> Color3uint8 (to_color3uint8); the numbers are exactly those from_number accepts *)",
         "Definition brick_color_table : brick_table :=",
         " [" + ";\n  ".join("(%d,(%d,%d,%d))" % (n, r, g, b) for n, _nm, r, g, b in bricks) + "].", "",
         "Definition brick_color_names : list (N * string) :=",
         " [" + ";\n  ".join("(%d,%s)" % (n, coq_str(nm)) for n, nm, _r, _g, _b in bricks) + "].", ""]
    return "\n".join(o)


# ------------------------------------------------------------------ variant.rs / types.rs / state.rs / conversion.rs

def variant_types():
    body = block_after(src("rbx_types/src/variant.rs"), r"(?m)^make_variant!\s*\{", "make_variant! invocation")
    names = re.findall(r"(?m)^\s*(\w+)\s*\(", strip_line_comments(body))
    need(len(names) >= 40 and len(set(names)) == len(names), "make_variant!: %d variants parsed" % len(names))
    return {n: k for k, n in enumerate(names)}, names


def binary_types():
    vt, vnames = variant_types()
    ty = src("rbx_binary/src/types.rs")
    enum = strip_line_comments(block_after(ty, r"pub enum Type\s*\{", "enum Type"))
    ids = [(n, int(v, 16)) for n, v in re.findall(r"(\w+)\s*=\s*0x([0-9A-Fa-f]+)\s*,", enum)]
    need(ids and len(ids) == len(re.findall(r"=", enum)), "enum Type: discriminants not understood")
    idmap = dict(ids)
    need(len(idmap) == len(ids) and len(set(idmap.values())) == len(ids), "enum Type: duplicate names or ids")
    frm = strip_line_comments(block_after(ty, r"pub fn from_rbx_type\s*\([^)]*\)\s*->\s*Option<Type>\s*\{", "Type::from_rbx_type"))
    pairs = re.findall(r"VariantType::(\w+)\s*=>\s*Type::(\w+)\s*,", frm)
    need(pairs and len(pairs) == len(re.findall(r"VariantType::", frm)), "from_rbx_type: arms not understood")
    need(re.search(r"_\s*=>\s*return\s+None", frm), "from_rbx_type: the catch-all arm is no longer `return None`")
    wire = []
    for v, t in pairs:
        need(v in vt and t in idmap, "from_rbx_type: unknown name %s/%s" % (v, t))
        wire.append((vt[v], idmap[t]))
    need(len({a for a, _ in wire}) == len(wire), "from_rbx_type: duplicate VariantType arm")

    st = src("rbx_binary/src/serializer/state.rs")
    body = block_after(st, r"match\s+prop_info\.prop_type\s*\{", "serialize_properties: match prop_info.prop_type")
    # arms at depth 0 of the block
    arms, depth, j, starts = [], 0, 0, []
    while j < len(body):
        ch = body[j]
        if ch == '"':
            j += 1
            while body[j] != '"':
                j += 2 if body[j] == "\\" else 1
        elif body.startswith("//", j):
            j = body.index("\n", j)
        elif ch in "{(":
            depth += 1
        elif ch in "})":
            depth -= 1
        elif depth == 0:
            m = re.match(r"Type::(\w+)\s*=>\s*\{", body[j:])
            if m and (j == 0 or not (body[j - 1].isalnum() or body[j - 1] in "_:")):
                starts.append((j, m.group(1)))
        j += 1
    need(starts, "serialize_properties: no `Type::X => {` arms found")
    accepts = []
    for k, (pos, tname) in enumerate(starts):
        end = starts[k + 1][0] if k + 1 < len(starts) else len(body)
        text = strip_line_comments(body[pos:end])
        vs = []
        for v in re.findall(r"Variant::(\w+)\s*\(", text):
            need(v in vt, "serialize_properties arm %s: unknown Variant::%s" % (tname, v))
            if vt[v] not in vs:
                vs.append(vt[v])
        need(tname in idmap and vs, "serialize_properties arm %s: no accepted Variant found" % tname)
        need("type_mismatch(" in text, "serialize_properties arm %s: no type_mismatch fallback (shape changed)" % tname)
        accepts.append((idmap[tname], sorted(vs)))
    need(sorted(a for a, _ in accepts) == sorted(idmap.values()),
         "serialize_properties: arms %s do not cover enum Type %s" % (sorted(a for a, _ in accepts), sorted(idmap.values())))

    fb = strip_line_comments(block_after(st, r"fn fallback_default_value\s*\([^)]*\)\s*->\s*Option<Variant>\s*\{", "fallback_default_value"))
    fbs = re.findall(r"VariantType::(\w+)\s*=>", fb)
    need(fbs and all(v in vt for v in fbs) and re.search(r"_\s*=>\s*return\s+None", fb), "fallback_default_value: arms not understood")

    cv = src("rbx_xml/src/conversion.rs")
    cbody = block_after(cv, r"match\s*\(\s*value\.borrow\(\)\s*,\s*target_type\s*\)\s*\{", "conversion.rs: match (value, target_type)")
    convs = re.findall(r"\(\s*Variant::(\w+)\s*\([^)]*\)\s*,\s*VariantType::(\w+)\s*\)\s*=>", strip_line_comments(cbody))
    need(convs and all(a in vt and b in vt for a, b in convs), "conversion.rs: conversion arms not understood")
    need(len(convs) == len(re.findall(r"(?m)^\s{12}\(\s*Variant::", cbody)), "conversion.rs: some conversion arms were not understood")
    need(re.search(r"\(\s*_\s*,\s*_\s*\)\s*=>\s*Ok\(value\)", cbody), "conversion.rs: the catch-all arm is no longer `Ok(value)`")
    return vnames, ids, sorted(wire), sorted(accepts), sorted(vt[v] for v in fbs), sorted((vt[a], vt[b]) for a, b in convs)


def render_binary_types():
    vnames, ids, wire, accepts, fbs, convs = binary_types()
    o = ["(* GENERATED by tools/translate.py from rbx_types/src/variant.rs, rbx_binary/src/types.rs,",
         "   rbx_binary/src/serializer/state.rs and rbx_xml/src/conversion.rs -- do not edit. *)",
         "From Coq Require Import List NArith String.", "Import ListNotations.", "Open Scope N_scope.", "Open Scope string_scope.", "",
         "(* VariantType: position in make_variant! (the number Value.vtype uses) *)",
         "Definition variant_type_names : list (N * string) :=",
         " [" + "; ".join("(%d,%s)" % (k, coq_str(n)) for k, n in enumerate(vnames)) + "].", "",
         "(* rbx_binary Type: name, wire id *)",
         "Definition binary_type_ids : list (string * N) :=",
         " [" + "; ".join("(%s,%d)" % (coq_str(n), v) for n, v in ids) + "].", "",
         "(* Type::from_rbx_type: VariantType -> wire id; absent = None (UnsupportedPropType) *)",
         "Definition binary_wire_type : list (N * N) :=",
         " [" + "; ".join("(%d,%d)" % p for p in wire) + "].", "",
         "(* serialize_properties: wire id -> VariantTypes the arm writes; anything else is PropTypeMismatch *)",
         "Definition binary_accepts : list (N * list N) :=",
         " [" + ";\n  ".join("(%d,[%s])" % (t, ";".join(str(v) for v in vs)) for t, vs in accepts) + "].", "",
         "(* fallback_default_value: VariantTypes with a built-in default *)",
         "Definition binary_fallback_types : list N := [" + ";".join(str(v) for v in fbs) + "].", "",
         "(* rbx_xml conversion.rs: (value type, target type) pairs with a conversion; every other pair passes the value through *)",
         "Definition xml_conversions : list (N * N) :=",
         " [" + "; ".join("(%d,%d)" % p for p in convs) + "].", ""]
    return "\n".join(o)


# ------------------------------------------------------------------ database

def regenerate_database(required=False):
    hb = vlib.harness_bin()
    out = os.path.join(GEN, "Database.v")
    if not os.path.exists(hb):
        need(not required, "the harness binary %s does not exist: Gen/Database.v cannot be regenerated" % hb)
        need(os.path.exists(out), "neither the harness binary nor a committed Gen/Database.v exists")
        return "kept (harness not built yet)"
    os.makedirs(GEN, exist_ok=True)
    p = subprocess.run([hb, "dbdump", "--out", out], stdout=subprocess.PIPE, stderr=subprocess.STDOUT, text=True, timeout=300)
    need(p.returncode == 0, "rbxverif dbdump failed: " + p.stdout.strip()[-600:])
    need(os.path.exists(out) and os.path.getsize(out) > 1000, "rbxverif dbdump wrote no database")
    # oracle tables for running the default values through the codec models inside Coq (Gen/DefaultOracle.v)
    out2 = os.path.join(GEN, "DefaultOracle.v")
    p2 = subprocess.run([hb, "dboracle", "--out", out2], stdout=subprocess.PIPE, stderr=subprocess.STDOUT, text=True, timeout=300)
    need(p2.returncode == 0, "rbxverif dboracle failed: " + p2.stdout.strip()[-600:])
    need(os.path.exists(out2) and os.path.getsize(out2) > 1000, "rbxverif dboracle wrote no tables")
    return p.stdout.strip() + "; " + p2.stdout.strip()


def regenerate_tables():
    res = {}
    res["MigrationTables.v"] = write_if_changed(os.path.join(GEN, "MigrationTables.v"), render_migration_tables())
    res["BinaryTypes.v"] = write_if_changed(os.path.join(GEN, "BinaryTypes.v"), render_binary_types())
    return res


def regenerate_all(required=False):
    res = regenerate_tables()
    res["Database.v"] = regenerate_database(required)
    return res


FOR = {"C16": ("tables", "database"), "C15": ("tables", "database"), "C06": ("tables", "database")}


def regenerate_for(pid, required=True):
    """regenerates what property `pid` depends on (everything: the three files are cheap)"""
    return regenerate_all(required)


if __name__ == "__main__":
    for k, v in regenerate_all().items():
        print(k, v)
