"""TRANSLATOR for property C17: regenerates /verif/coq/Gen/Types17.v from the source text of /repo.

  material_table        rbx_types/src/material_colors.rs: the rows `Name => [r, g, b]` of the
                        `material_colors!` invocation, in order (= TerrainMaterials discriminants = MATERIAL_ORDER);
                        the translator also pins the shape facts the hand-written model relies on
                        (69-byte blob, 6 reserved bytes, chunks(3).skip(2), one list feeding enum and order)
  font_weight_from/as   rbx_types/src/font.rs: arms of FontWeight::from_u16 and FontWeight::as_u16
  font_style_from/as    arms of FontStyle::from_u8 / as_u8
  brick_entries         (number, name, colour) rows of make_brick_color!: NOT duplicated -- zipped in Coq from
                        Gen/MigrationTables.v (tools/translate.py, which this module refreshes first)

FAILS CLOSED: a table that cannot be found or parsed raises TranslateError; files are rewritten only when
their content changed."""
import os, re, sys

sys.path.insert(0, os.path.dirname(os.path.abspath(__file__)))
import vlib
import translate
from translate import need, src, write_if_changed, block_after, strip_line_comments, coq_str, TranslateError

GEN = os.path.join(vlib.COQ, "Gen")


def material_table():
    mc = src("rbx_types/src/material_colors.rs")
    m = re.search(r"(?m)^material_colors!\s*\{", mc)
    need(m, "material_colors! invocation not found")
    body = strip_line_comments(block_after(mc[m.start():], r"material_colors!\s*\{", "material_colors! table"))
    rows = re.findall(r"(\w+)\s*=>\s*\[\s*(\d+)\s*,\s*(\d+)\s*,\s*(\d+)\s*\]\s*,?", body)
    nrows = len(re.findall(r"=>", body))
    need(rows and nrows == len(rows), "material_colors!: %d rows, %d understood" % (nrows, len(rows)))
    out = [(n, int(r), int(g), int(b)) for n, r, g, b in rows]
    need(len({r[0] for r in out}) == len(out), "material_colors!: duplicate material")
    need(all(c < 256 for r in out for c in r[1:]), "material_colors!: colour component out of range")
    # shape facts of the hand-written model (Model/MaterialColors.v)
    mo = re.search(r"const MATERIAL_ORDER:\s*\[TerrainMaterials;\s*(\d+)\]\s*=\s*\[\$\(TerrainMaterials::\$name,\)\*\];", mc)
    need(mo, "MATERIAL_ORDER is no longer built from the macro's row list")
    need(int(mo.group(1)) == len(out), "MATERIAL_ORDER has %s entries, the table %d" % (mo.group(1), len(out)))
    need(re.search(r"pub enum TerrainMaterials\s*\{\s*\$\(\s*\$name,\s*\)\*\s*\}", mc), "enum TerrainMaterials is no longer the macro's row list")
    need(re.search(r"Self::\$name\s*=>\s*Color3uint8::new\(\$r,\s*\$g,\s*\$b\)", mc), "default_color is no longer the table")
    enc = block_after(mc, r"pub fn encode\s*\(\s*&self\s*\)\s*->\s*Vec<u8>\s*\{", "MaterialColors::encode")
    need(re.search(r"extend_from_slice\(&\[0;\s*6\]\)", enc) and re.search(r"for color in MATERIAL_ORDER", enc)
         and re.search(r"extend_from_slice\(&\[color\.r,\s*color\.g,\s*color\.b\]\)", enc), "MaterialColors::encode changed shape")
    dec = block_after(mc, r"pub fn decode\s*\(\s*buffer:\s*&\[u8\]\s*\)\s*->\s*Result<Self,\s*CrateError>\s*\{", "MaterialColors::decode")
    need(re.search(r"buffer\.len\(\)\s*!=\s*69", dec) and re.search(r"MATERIAL_ORDER\.iter\(\)\.zip\(buffer\.chunks\(3\)\.skip\(2\)\)", dec)
         and re.search(r"Color3uint8::new\(color\[0\],\s*color\[1\],\s*color\[2\]\)", dec), "MaterialColors::decode changed shape")
    need(6 + 3 * len(out) == 69, "6 + 3 * %d materials is not 69" % len(out))
    return out


def from_table(text, fn_name, enum_name):
    """`pub fn from_u16(x: u16) -> Option<Self> { Some(match x { 100 => Enum::A, ..., _ => return None, }) }` -> [(100, A)]"""
    body = block_after(text, r"pub fn %s\s*\(\s*\w+\s*:\s*u\d+\s*\)\s*->\s*Option<Self>\s*\{" % fn_name, fn_name)
    body = strip_line_comments(body)
    pairs = re.findall(r"(\d+)\s*=>\s*%s::(\w+)\s*," % enum_name, body)
    narms = len(re.findall(r"=>", body))
    need(pairs and narms == len(pairs) + 1, "%s: %d arms, %d understood" % (fn_name, narms, len(pairs)))
    need(re.search(r"_\s*=>\s*return None", body), "%s: the catch-all arm is no longer `return None`" % fn_name)
    return [(int(k), v) for k, v in pairs]


def as_table(text, fn_name, enum_name):
    body = block_after(text, r"pub fn %s\s*\(\s*self\s*\)\s*->\s*\w+\s*\{" % fn_name, fn_name)
    body = strip_line_comments(body)
    pairs = re.findall(r"%s::(\w+)\s*=>\s*(\d+)\s*," % enum_name, body)
    narms = len(re.findall(r"=>", body))
    need(pairs and narms == len(pairs), "%s: %d arms, %d understood" % (fn_name, narms, len(pairs)))
    return [(v, int(k)) for v, k in pairs]


def font_tables():
    ft = src("rbx_types/src/font.rs")
    wv, _ = translate.enum_variants_and_default(ft, "FontWeight")
    sv, _ = translate.enum_variants_and_default(ft, "FontStyle")
    t = {"weight_from": from_table(ft, "from_u16", "FontWeight"), "weight_as": as_table(ft, "as_u16", "FontWeight"),
         "style_from": from_table(ft, "from_u8", "FontStyle"), "style_as": as_table(ft, "as_u8", "FontStyle")}
    need([v for v, _ in t["weight_as"]] == wv, "FontWeight::as_u16 does not list the enum's variants in order")
    need([v for v, _ in t["style_as"]] == sv, "FontStyle::as_u8 does not list the enum's variants in order")
    return t


def render():
    mats, fonts = material_table(), font_tables()
    bricks = translate.brick_colors()           # parsed again only to pin the count; the Coq table is MigrationTables'
    sb = lambda s: "str_bytes " + coq_str(s)
    o = ["(* GENERATED by tools/translate17.py from rbx_types/src/material_colors.rs and rbx_types/src/font.rs -- do not edit.",
         "   %d terrain materials, %d/%d FontWeight arms, %d/%d FontStyle arms; %d BrickColors zipped from Gen/MigrationTables.v. *)"
         % (len(mats), len(fonts["weight_from"]), len(fonts["weight_as"]), len(fonts["style_from"]), len(fonts["style_as"]), len(bricks)),
         "From Coq Require Import String.",
         "From RbxVerif Require Import Db MigrationTables BitSets MaterialColors BrickColorTbl.",
         "Open Scope N_scope.", "Open Scope string_scope.", "",
         "(* material_colors!: (name, default colour) in declaration order = discriminant order = MATERIAL_ORDER *)",
         "Definition material_table : mat_table :=",
         " [" + ";\n  ".join("(%s,(%d,%d,%d))" % (sb(n), r, g, b) for n, r, g, b in mats) + "].", "",
         "(* FontWeight::from_u16 arms (number, variant) and FontWeight::as_u16 arms (variant, number) *)",
         "Definition font_weight_from : list (N * bytes) :=",
         " [" + "; ".join("(%d,%s)" % (k, sb(v)) for k, v in fonts["weight_from"]) + "].",
         "Definition font_weight_as : list (bytes * N) :=",
         " [" + "; ".join("(%s,%d)" % (sb(v), k) for v, k in fonts["weight_as"]) + "].",
         "Definition font_style_from : list (N * bytes) :=",
         " [" + "; ".join("(%d,%s)" % (k, sb(v)) for k, v in fonts["style_from"]) + "].",
         "Definition font_style_as : list (bytes * N) :=",
         " [" + "; ".join("(%s,%d)" % (sb(v), k) for v, k in fonts["style_as"]) + "].", "",
         "(* make_brick_color!: (number, name, colour) in source order *)",
         "Definition brick_entries : list bc_entry := bc_zip str_bytes brick_color_table brick_color_names.",
         "Definition BRICK_COUNT : nat := %d." % len(bricks), ""]
    return "\n".join(o)


def regenerate():
    """refreshes Gen/MigrationTables.v (the BrickColor rows) and Gen/Types17.v; returns {file: changed}"""
    res = {}
    res["MigrationTables.v"] = write_if_changed(os.path.join(GEN, "MigrationTables.v"), translate.render_migration_tables())
    res["Types17.v"] = write_if_changed(os.path.join(GEN, "Types17.v"), render())
    return res


if __name__ == "__main__":
    for k, v in regenerate().items():
        print(k, v)
