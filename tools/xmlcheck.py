"""C05, writer direction: the text rbx_xml writes is parsed with an INDEPENDENT XML parser (expat, through
xml.etree) and checked against /repo/docs/xml.md: the structural clauses of the property (one `roblox` element of
version 4; Item elements with a class and a file-unique referent that is never `null`; exactly one Properties per Item;
`null` for empty references; a SharedStrings dictionary that defines every key used) and the documented layout of every
type element (element names, child elements, number spellings).  The instance tree, classes and Name strings recovered
by the independent parser are compared with the source DOM of the case.  Nothing here uses xml-rs or rbx_xml.

check(text: bytes, case_lines: [str]) -> [(key, message)]"""
import re
import xml.etree.ElementTree as ET

INT = re.compile(r"^-?[0-9]+$")
UINT = re.compile(r"^[0-9]+$")
# XSD precisionDecimal / float lexical forms plus the documented INF / +INF / -INF / NAN
FLOAT = re.compile(r"^(?:[+-]?(?:[0-9]+(?:\.[0-9]*)?|\.[0-9]+)(?:[eE][+-]?[0-9]+)?|[+-]?INF|NAN|NaN)$")
NONFINITE_BAD = re.compile(r"^[+-]?(?:inf|infinity|nan)$", re.I)
B64 = re.compile(r"^[A-Za-z0-9+/\s]*={0,2}\s*$")
HEX32 = re.compile(r"^[0-9a-fA-F]{32}$")


class Bad(Exception):
    def __init__(self, key, msg):
        Exception.__init__(self, msg)
        self.key, self.msg = key, msg


def text_of(e):
    """character data of an element that must not have child elements"""
    if len(e):
        raise Bad("layout", "<%s> has child elements <%s>" % (e.tag, e[0].tag))
    return e.text or ""


def only_ws(s):
    return s is None or s.strip(" \t\r\n") == ""


def no_text(e):
    """an element whose content is child elements only"""
    if not only_ws(e.text) or any(not only_ws(c.tail) for c in e):
        raise Bad("layout", "<%s> has character data between its child elements" % e.tag)


def is_float(s, where):
    if s in ("INF", "+INF", "-INF", "NAN"):
        return
    if FLOAT.match(s) and not NONFINITE_BAD.match(s):
        if s in ("NaN",):
            raise Bad("float-spelling", "%s: NaN is written `%s`, the document requires `NAN`" % (where, s))
        return
    if NONFINITE_BAD.match(s):
        raise Bad("float-spelling", "%s: non-finite number written `%s`; the document requires INF, -INF or NAN" % (where, s))
    raise Bad("layout", "%s: `%s` is not a float" % (where, s[:40]))


def is_int(s, lo, hi, where):
    if not INT.match(s) or not (lo <= int(s) <= hi):
        raise Bad("layout", "%s: `%s` is not an integer in [%d, %d]" % (where, s[:40], lo, hi))


def children(e, names, where, optional_tail=()):
    no_text(e)
    got = [c.tag for c in e]
    want = list(names)
    if got != want and got != want + list(optional_tail):
        raise Bad("layout", "%s: child elements %s, documented: %s" % (where, got, want))
    return list(e)


def floats_in(e, names, where):
    for c in children(e, names, where):
        is_float(text_of(c), where + "/" + c.tag)


CF = ["X", "Y", "Z", "R00", "R01", "R02", "R10", "R11", "R12", "R20", "R21", "R22"]


def content_child(e, allowed, where):
    no_text(e)
    if len(e) != 1 or e[0].tag not in allowed:
        raise Bad("layout", "%s: exactly one child of %s expected, found %s" % (where, allowed, [c.tag for c in e]))
    c = e[0]
    if c.tag == "null" and (len(c) or not only_ws(c.text)):
        raise Bad("layout", "%s: <null> must be empty" % where)
    if c.tag != "null":
        text_of(c)
    return c


def check_property(e, referents, shared_keys, out_refs):
    w = "<%s name=%r>" % (e.tag, e.get("name"))
    t = e.tag
    if t in ("string", "ProtectedString"):
        text_of(e)
    elif t == "bool":
        if text_of(e) not in ("true", "false"):
            raise Bad("layout", w + ": not true/false")
    elif t == "int":
        is_int(text_of(e), -2 ** 31, 2 ** 31 - 1, w)
    elif t == "int64":
        is_int(text_of(e), -2 ** 63, 2 ** 63 - 1, w)
    elif t == "token":
        is_int(text_of(e), 0, 2 ** 32 - 1, w)
    elif t in ("float", "double"):
        is_float(text_of(e), w)
    elif t == "BinaryString":
        if not B64.match(text_of(e)):
            raise Bad("layout", w + ": content is not base64")
    elif t == "Axes":
        is_int(text_of(children(e, ["axes"], w)[0]), 0, 7, w)
    elif t == "Faces":
        is_int(text_of(children(e, ["faces"], w)[0]), 0, 63, w)
    elif t == "Color3":
        floats_in(e, ["R", "G", "B"], w)
    elif t == "Color3uint8":
        is_int(text_of(e), 0, 2 ** 32 - 1, w)
    elif t in ("ColorSequence", "NumberSequence", "NumberRange"):
        parts = [p for p in re.split(r"[ \t\r\n]+", text_of(e)) if p != ""]   # indentation of an empty element is not content
        per = {"ColorSequence": 5, "NumberSequence": 3, "NumberRange": 2}[t]
        if len(parts) % per != 0 or (t == "NumberRange" and len(parts) != 2):
            raise Bad("layout", "%s: %d numbers" % (w, len(parts)))
        for p in parts:
            is_float(p, w)
    elif t == "Content":
        c = content_child(e, ("null", "uri", "Ref"), w)
        if c.tag == "Ref":
            out_refs.append((w, c.text or ""))
    elif t == "ContentId":
        content_child(e, ("null", "url"), w)
    elif t == "CoordinateFrame":
        floats_in(e, CF, w)
    elif t == "OptionalCoordinateFrame":
        no_text(e)
        if len(e) > 1 or (len(e) == 1 and e[0].tag != "CFrame"):
            raise Bad("layout", w + ": zero or one <CFrame> child expected")
        if len(e) == 1:
            floats_in(e[0], CF, w + "/CFrame")
    elif t == "Font":
        cs = children(e, ["Family", "Weight", "Style"], w, optional_tail=["CachedFaceId"])
        content_child(cs[0], ("null", "url"), w + "/Family")
        is_int(text_of(cs[1]), 100, 900, w + "/Weight")
        if text_of(cs[2]) not in ("Normal", "Italic"):
            raise Bad("layout", w + ": Style " + text_of(cs[2])[:20])
        if len(cs) == 4:
            content_child(cs[3], ("null", "url"), w + "/CachedFaceId")
    elif t == "PhysicalProperties":
        no_text(e)
        if not len(e) or e[0].tag != "CustomPhysics" or text_of(e[0]) not in ("true", "false"):
            raise Bad("layout", w + ": first child must be <CustomPhysics>true|false")
        names = ["CustomPhysics"] + (["Density", "Friction", "Elasticity", "FrictionWeight", "ElasticityWeight"] if text_of(e[0]) == "true" else [])
        for c in children(e, names, w)[1:]:
            is_float(text_of(c), w + "/" + c.tag)
    elif t == "Ray":
        a, b = children(e, ["origin", "direction"], w)
        floats_in(a, ["X", "Y", "Z"], w + "/origin")
        floats_in(b, ["X", "Y", "Z"], w + "/direction")
    elif t == "Rect2D":
        a, b = children(e, ["min", "max"], w)
        floats_in(a, ["X", "Y"], w + "/min")
        floats_in(b, ["X", "Y"], w + "/max")
    elif t == "Ref":
        out_refs.append((w, text_of(e)))
    elif t == "SharedString":
        k = text_of(e)
        if k not in shared_keys:
            raise Bad("shared-undefined", "%s: key `%s` is not defined in the SharedStrings dictionary" % (w, k[:40]))
    elif t == "UDim":
        a, b = children(e, ["S", "O"], w)
        is_float(text_of(a), w + "/S")
        is_int(text_of(b), -2 ** 31, 2 ** 31 - 1, w + "/O")
    elif t == "UDim2":
        cs = children(e, ["XS", "XO", "YS", "YO"], w)
        for c in (cs[0], cs[2]):
            is_float(text_of(c), w + "/" + c.tag)
        for c in (cs[1], cs[3]):
            is_int(text_of(c), -2 ** 31, 2 ** 31 - 1, w + "/" + c.tag)
    elif t == "UniqueId":
        if not HEX32.match(text_of(e)):
            raise Bad("layout", w + ": not 16 bytes of hexadecimal")
    elif t == "Vector2":
        floats_in(e, ["X", "Y"], w)
    elif t == "Vector3":
        floats_in(e, ["X", "Y", "Z"], w)
    elif t == "Vector3int16":
        for c in children(e, ["X", "Y", "Z"], w):
            is_int(text_of(c), -32768, 32767, w)
    elif t == "Vector2int16":             # written by rbx_xml, not described by docs/xml.md
        for c in children(e, ["X", "Y"], w):
            is_int(text_of(c), -32768, 32767, w)
    elif t == "SecurityCapabilities":     # written by rbx_xml, not described by docs/xml.md
        is_int(text_of(e), 0, 2 ** 64 - 1, w)
    else:
        raise Bad("layout", "type element <%s> is not one docs/xml.md describes" % t)


def source_tree(case_lines):
    """pre-order [(class, name)] of the written instances of a dom case, or None if the root selection is degenerate"""
    nodes, roots = [], None
    for l in case_lines:
        p = l.split(" ")
        if p[0] == "node":
            nodes.append((int(p[1], 16), int(p[2], 16), bytes.fromhex(p[3]) if p[3] != "-" else b"", bytes.fromhex(p[4]) if p[4] != "-" else b""))
        elif p[0] == "roots":
            roots = [int(x, 16) for x in p[1:] if x]
    if roots is None:
        return None
    labels = {n[0] for n in nodes}
    parent = {n[0]: n[1] for n in nodes}
    if len(set(roots)) != len(roots) or any(r not in labels for r in roots):
        return None
    for r in roots:
        q = parent[r]
        while q:
            if q in roots:
                return None
            q = parent[q]
    byl = {n[0]: n for n in nodes}
    out = []

    def walk(l):
        out.append((byl[l][2].decode("utf8", "replace"), byl[l][3].decode("utf8", "replace")))
        for n in nodes:
            if n[1] == l:
                walk(n[0])
    for r in roots:
        walk(r)
    return out


def source_leaves(case_lines):
    """pre-order list, one dict per written instance: property name -> (kind, bytes) for the string-like values of the
    source DOM whose text an independent parser must recover exactly (Str: <string>/<ProtectedString> text; Content 1:
    the <uri> text; CId: the <url> text).  None when the tree is degenerate."""
    nodes, roots, props, cur = [], None, {}, None
    for l in case_lines:
        p = l.split(" ")
        if p[0] == "node":
            cur = int(p[1], 16)
            nodes.append((cur, int(p[2], 16)))
            props[cur] = {}
        elif p[0] == "prop" and cur is not None and len(p) >= 3:
            try:
                name = bytes.fromhex(p[1]).decode("utf8")
            except Exception:
                continue
            hexv = lambda x: b"" if x == "-" else bytes.fromhex(x)
            try:
                if p[2] == "Str" and len(p) >= 4:
                    entry = ("Str", hexv(p[3]))
                elif p[2] == "Content" and len(p) >= 5 and p[3] == "1":
                    entry = ("Uri", hexv(p[4]))
                elif p[2] == "CId" and len(p) >= 4:
                    entry = ("Url", hexv(p[3]))
                else:
                    continue
            except ValueError:
                continue
            if name in props[cur]:
                props[cur][name] = None          # spelled twice on one instance: not compared
            else:
                props[cur][name] = entry
        elif p[0] == "roots":
            roots = [int(x, 16) for x in p[1:] if x]
            cur = None
    if roots is None:
        return None
    out = []

    def walk(l):
        out.append(props.get(l, {}))
        for n in nodes:
            if n[1] == l:
                walk(n[0])
    for r in roots:
        walk(r)
    return out


def leaf_text_problem(pe, entry):
    """the text an independent parser recovers from a string-like element must be the source value (an element the
    writer leaves without a text event must not pick up indentation as its content)"""
    kind, want = entry
    try:
        want_s = want.decode("utf8")
    except UnicodeDecodeError:
        return None
    if "\r" in want_s:
        return None                       # carriage returns: the recorded cr-normalised class
    if kind == "Str" and pe.tag in ("string", "ProtectedString") and len(pe) == 0:
        got = pe.text or ""
    elif kind == "Uri" and pe.tag == "Content" and len(pe) == 1 and pe[0].tag == "uri" and len(pe[0]) == 0:
        got = pe[0].text or ""
    elif kind == "Url" and pe.tag == "ContentId" and len(pe) == 1 and pe[0].tag == "url" and len(pe[0]) == 0:
        got = pe[0].text or ""
    elif kind == "Url" and pe.tag == "Content" and len(pe) == 1 and pe[0].tag == "url" and len(pe[0]) == 0:
        got = pe[0].text or ""
    else:
        return None                       # written under another type (conversion / migration): layout only
    if got != want_s:
        return "<%s name=%r>: an independent parser reads %r, the DOM has %r" % (pe.tag, pe.get("name"), got[:60], want_s[:60])
    return None


def check(text, case_lines):
    res = []
    if any(l.startswith("roots") for l in case_lines) and source_tree(case_lines) is None:
        return []                      # the same instance selected twice / a root below a root: outside the quantifier
    try:
        root = ET.fromstring(text)
    except ET.ParseError as ex:
        return [("not-wellformed", "the document is not well-formed XML for expat: %s" % ex)]
    except Exception as ex:            # e.g. invalid UTF-8
        return [("not-wellformed", "the document cannot be parsed: %s" % ex)]
    try:
        if root.tag != "roblox":
            raise Bad("structure", "root element is <%s>" % root.tag)
        if root.get("version") != "4":
            raise Bad("structure", "roblox version attribute is %r" % root.get("version"))
        no_text(root)
        kinds = [c.tag for c in root]
        if any(k not in ("Meta", "External", "Item", "SharedStrings") for k in kinds):
            raise Bad("structure", "unexpected child of <roblox>: %s" % [k for k in kinds if k not in ("Meta", "External", "Item", "SharedStrings")][:3])
        if kinds.count("SharedStrings") > 1:
            raise Bad("structure", "more than one <SharedStrings>")
        shared = {}
        for d in root.findall("SharedStrings"):
            no_text(d)
            for s in d:
                if s.tag != "SharedString" or s.get("md5") is None:
                    raise Bad("structure", "<SharedStrings> contains <%s> / a definition without md5" % s.tag)
                if s.get("md5") in shared:
                    raise Bad("structure", "SharedString key %s defined twice" % s.get("md5"))
                if not B64.match(text_of(s)):
                    raise Bad("layout", "SharedString definition is not base64")
                shared[s.get("md5")] = True
        referents, refs, tree = {}, [], []
        item_props = []

        def item(it):
            if it.get("class") is None or it.get("referent") is None:
                raise Bad("structure", "<Item> without class or referent")
            r = it.get("referent")
            if r == "null":
                raise Bad("structure", "an Item has the reserved referent `null`")
            if r in referents:
                raise Bad("referent-not-unique", "referent %r is used by two Items" % r)
            referents[r] = True
            no_text(it)
            props = [c for c in it if c.tag == "Properties"]
            if len(props) != 1:
                raise Bad("structure", "<Item> has %d <Properties> elements" % len(props))
            if any(c.tag not in ("Properties", "Item") for c in it):
                raise Bad("structure", "unexpected child of <Item>: %s" % [c.tag for c in it if c.tag not in ("Properties", "Item")][:3])
            no_text(props[0])
            name = None
            for pe in props[0]:
                if pe.get("name") is None:
                    raise Bad("structure", "type element <%s> without a name attribute" % pe.tag)
                check_property(pe, referents, shared, refs)
                if pe.get("name") == "Name" and pe.tag == "string" and name is None:
                    name = pe.text or ""
            tree.append((it.get("class"), name))
            item_props.append(list(props[0]))
            for c in it:
                if c.tag == "Item":
                    item(c)
        for c in root:
            if c.tag == "Item":
                item(c)
        for w, r in refs:
            if r == "":
                raise Bad("structure", "%s: an empty reference must be written `null`" % w)
            if r != "null" and r not in referents:
                res.append(("dangling-ref", "%s names referent `%s`, which no Item of the document carries (a reference to an instance that is not written should be `null`)" % (w, r[:40])))
                break
        src = source_tree(case_lines)
        if src is None and any(l.startswith("roots") for l in case_lines):
            return []                  # the same instance selected twice / a root below a root: outside the quantifier
        if src is not None:
            got = [(c, n) for c, n in tree]
            if [c for c, _ in got] != [c for c, _ in src]:
                raise Bad("tree", "the document's Items are %s, the DOM's written instances %s" % ([c for c, _ in got][:6], [c for c, _ in src][:6]))
            has_name_prop = any(l.startswith("prop 4e616d65 ") for l in case_lines)
            if not has_name_prop:
                for k, ((c, n), (_, sn)) in enumerate(zip(got, src)):
                    if n != sn:
                        eol = lambda x: (x or "").replace("\r\n", "\n").replace("\r", "\n")
                        if eol(n) == eol(sn):
                            raise Bad("cr-normalised", "Item #%d (%s): the Name %r contains a carriage return that is written literally; a conforming XML "
                                      "parser normalises it to a line feed (XML 1.0, 2.11) and reads %r" % (k + 1, c, sn, n))
                        raise Bad("name", "Item #%d (%s): an independent parser reads the Name %r, the DOM has %r" % (k + 1, c, n, sn))
            leaves = source_leaves(case_lines)
            if leaves is not None and len(leaves) == len(item_props):
                for k, (want, pes) in enumerate(zip(leaves, item_props)):
                    written = {pe.get("name") for pe in pes}
                    if any(n not in written for n in want):
                        # a string-like source property has no element of its own name: it was renamed (alias / serialized
                        # name / migration), merged with another spelling, or ignored; which value an element then holds is
                        # the writer's name resolution, not text layout: the item is not compared
                        continue
                    for pe in pes:
                        entry = want.get(pe.get("name"))
                        if entry and pe.get("name") != "Name":
                            msg = leaf_text_problem(pe, entry)
                            if msg:
                                raise Bad("leaf-text", "Item #%d: %s" % (k + 1, msg))
    except Bad as b:
        res.append((b.key, b.msg))
    return res
