#!/usr/bin/env python3
"""prints the markdown table `seeded change -> checks that catch it` from seeded/*/meta.json"""
import json, os, glob
V = os.path.dirname(os.path.dirname(os.path.abspath(__file__)))
rows = []
for d in sorted(glob.glob(os.path.join(V, "seeded", "*"))):
    mp = os.path.join(d, "meta.json")
    if not os.path.exists(mp):
        continue
    m = json.load(open(mp))
    ran = sorted(m.get("checks", {}).keys())
    caught = m.get("caught_by", [])
    missed = [c for c in ran if c not in caught]
    needs = " ".join(m.get("what_it_needs", "").split())[:160]
    rows.append((m.get("name", os.path.basename(d)), m.get("property", "?"), "yes" if m.get("confirmed") else "NO", ", ".join(caught) or "none", ", ".join(missed) or "-", needs))
import sys
if "--compact" in sys.argv:
    print("| seeded change | breaks | caught by | run, not caught |")
    print("|---|---|---|---|")
    for r in rows:
        print("| %s | %s | %s | %s |" % (r[0], r[1], r[3], r[4]))
    sys.exit(0)
print("| seeded change | breaks | confirmed | caught by | run, not caught | what it needs |")
print("|---|---|---|---|---|---|")
for r in rows:
    print("| %s | %s | %s | %s | %s | %s |" % r)
