"""Per-property handlers of ./check.  Each handler has run(pid, out, tier, seed, broken) where `broken`
is None or a description of the proof obligation / model build that no longer checks, and
replay(pid, path)."""
import json, os, re, shutil, sys
import vlib
from vlib import log

REGISTRY = {}


def workdir(pid):
    d = os.path.join(vlib.WORK, pid)
    os.makedirs(d, exist_ok=True)
    return d


# =====================================================================================
# C09-C12: WeakDom operation histories (dom-ops correspondence)
# =====================================================================================
CLONE_BASE = 1000000


def parse_obs(line):
    if not line.startswith("S "):
        return line
    parts = line[2:].split(" | ")
    doms = []
    for p in parts[1:]:
        m = re.match(r"root=(\d+) desc=([\d,]*) insts=(.*)$", p)
        insts = {}
        if m.group(3):
            for s in m.group(3).split(";"):
                mm = re.match(r"(\d+)\^(\d+)\[([\d,]*)\]n(\d+)c(\d+)\{(.*)\}$", s)
                props = {}
                if mm.group(6):
                    for kv in mm.group(6).split(","):
                        k, v = kv.split("=", 1)
                        props[int(k)] = v
                kids = [int(x) for x in mm.group(3).split(",")] if mm.group(3) else []
                insts[int(mm.group(1))] = (int(mm.group(2)), kids, int(mm.group(4)), int(mm.group(5)), props)
        desc = [int(x) for x in m.group(2).split(",")] if m.group(2) else []
        doms.append((int(m.group(1)), desc, insts))
    return (parts[0], doms)


def project(pid, o):
    """the coarsest observation under which the property's theorem transfers"""
    if isinstance(o, str):
        return o
    ret, doms = o
    res = []
    for root, desc, insts in doms:
        if pid == "C09":
            res.append((root, sorted(desc), {l: (i[0], sorted(i[1])) for l, i in insts.items()}))
        elif pid == "C10":
            def mask(l, props):
                # UniqueId values are compared exactly (labels: pool ids as given, regenerated ids by order of generation):
                # an id regenerated although nothing in the DOM holds it means the subtree did not arrive "as built"
                return {k: ("R" if v.startswith("R") and l >= CLONE_BASE else v) for k, v in props.items()}
            res.append((root, desc, {l: (i[0], i[1], i[2], i[3], mask(l, i[4])) for l, i in insts.items()}))
        elif pid == "C11":
            res.append({l: (i[0], i[1], i[2], i[3], {k: ("U" if v.startswith("U") else v) for k, v in i[4].items()})
                        for l, i in insts.items() if l >= CLONE_BASE})
        elif pid == "C12":
            res.append({l: i[4].get(0, "-") for l, i in insts.items()})
    return (ret if pid in ("C10", "C11") else "", res)


class DomFamily:
    MODEL = {"C09": "concrete", "C10": "abstract", "C11": "concrete", "C12": "concrete"}

    def run_cases(self, d, blocks, tag):
        cases = os.path.join(d, tag + ".cases")
        vlib.write_blocks(cases, blocks)
        obs, orc, st = [os.path.join(d, tag + x) for x in (".impl", ".oracle", ".stats")]
        mc, ma = os.path.join(d, tag + ".mconc"), os.path.join(d, tag + ".mabs")
        rc, o, _ = vlib.run([vlib.harness_bin(), "domops-run", cases, obs, orc, st], timeout=3000)
        if rc != 0:
            raise RuntimeError("harness domops-run failed: " + o[-2000:])
        rc, o, _ = vlib.run([vlib.MODELRUN, "domops", cases, mc, ma], timeout=3000)
        if rc != 0:
            raise RuntimeError("modelrun failed: " + o[-2000:])
        return (dict(vlib.read_blocks(obs)), dict(vlib.read_blocks(mc)), dict(vlib.read_blocks(ma)),
                [l.rstrip("\n") for l in open(orc)], json.load(open(st)))

    def disagreements(self, pid, blocks, impl, mconc, mabs):
        """[(case id, step, text)] where implementation and model differ under the property's projection"""
        out = []
        which = mconc if self.MODEL[pid] == "concrete" else mabs
        for cid, lines in blocks:
            io, mo = impl.get(cid, []), which.get(cid, [])
            for k in range(max(len(io), len(mo))):
                a = io[k] if k < len(io) else "<missing>"
                b = mo[k] if k < len(mo) else "<missing>"
                if b == "UNDEF":
                    # outside the documented preconditions: the implementation must have panicked,
                    # except for clone_multiple with overlapping roots (result unspecified; C09 only)
                    if a == "P" or lines[k].startswith("clonem"):
                        break
                    out.append((cid, k, "step %d `%s`: outside the documented preconditions yet the implementation returned" % (k, lines[k][:60])))
                    break
                if project(pid, parse_obs(a)) != project(pid, parse_obs(b)):
                    out.append((cid, k, "step %d `%s`: implementation and %s model differ" % (k, lines[k][:60], self.MODEL[pid])))
                    break
                if a == "P":
                    break
        return out

    def shrink(self, pid, d, lines, pred):
        """greedy delta debugging on the op list; pred(lines) -> bool (still failing)"""
        cur = list(lines)
        changed = True
        budget = 200
        while changed and budget > 0:
            changed = False
            for k in range(len(cur) - 1, -1, -1):
                if budget <= 0:
                    break
                cand = cur[:k] + cur[k + 1:]
                budget -= 1
                if cand and pred(cand):
                    cur = cand; changed = True
        return cur

    def fails(self, pid, d, lines):
        """(oracle_lines, disagreements) of one case for this property"""
        blocks = [("x", lines)]
        try:
            impl, mc, ma, orc, st = self.run_cases(d, blocks, "shrink")
        except RuntimeError:
            return [], []
        return [l for l in orc if (" " + pid + " ") in (" " + l)], self.disagreements(pid, blocks, impl, mc, ma)

    def run(self, pid, out, tier, seed, broken):
        d = workdir(pid)
        n_main, max_ops, n_long = (1500, 40, 0) if tier == "quick" else (40000, 60, 400)
        blocks = []
        cdir = os.path.join(vlib.VERIF, "corpus", "domops")
        if os.path.isdir(cdir):
            for f in sorted(os.listdir(cdir)):
                blocks += vlib.read_blocks(os.path.join(cdir, f))
        ncorpus = len(blocks)
        gen = os.path.join(d, "gen.cases")
        for (tag, n, mo, extra) in (("m", n_main, max_ops, []), ("p", max(50, n_main // 10), 12, ["--cycle-probe", "--malformed", "100"]),
                                    ("l", n_long, 400, ["--malformed", "2"])):
            if n == 0:
                continue
            rc, o, _ = vlib.run([vlib.harness_bin(), "domops-gen", "--seed", str(seed), "--cases", str(n), "--max-ops", str(mo),
                                 "--prefix", tag, "--out", gen] + extra, timeout=3000)
            if rc != 0:
                raise RuntimeError("domops-gen failed: " + o[-2000:])
            blocks += vlib.read_blocks(gen)
        if tier == "thorough":
            blocks += small_scope_cases()
        impl, mc, ma, orc, st = self.run_cases(d, blocks, "main")
        bmap = dict(blocks)
        # ---- implementation-side oracle of this property
        mine = [l for l in orc if (" " + pid + " ") in (" " + l)]
        dis = self.disagreements(pid, blocks, impl, mc, ma)
        out.coverage.update({
            "traces_validated_against_impl": len(blocks),
            "evaluations": len(blocks),
            "distinct_nontrivial": st.get("distinct_nontrivial", 0),
            "rule": "operation sequences over 1-3 real WeakDoms drawn from VERIF_SEED (arguments from live labels; about 10 percent of cases end in a "
                    "precondition violation that must panic; a probe stream of moves under the moved instance's own subtree); executed through the public "
                    "API and compared after every step with the extracted Coq %s model under the projection of %s; non-trivial = "
                    "contains a move/transfer/clone or >= 4 instances; distinct by op list" % (self.MODEL[pid], pid),
            "samples": [{"case": blocks[k][0], "ops": blocks[k][1][:6]} for k in range(min(3, len(blocks)))],
            "generator": st, "corpus_cases": ncorpus, "disagreements": len(dis), "oracle_failures": len(mine),
        })
        out.assumptions += [
            "Ref::new() and UniqueId::now() return values never seen before (modelled as counters; 128/63 random bits in the implementation)",
            "the harness labels referents/ids in creation order; an observation is the table label -> (parent, children, name, class, properties) of every DOM plus descendants() order",
            "the Coq models are tied to dom.rs by this differential run only (hand-written model)",
        ]
        # ---- C09 / C10: the models' assumption about Ref::new(), observed across threads on the implementation
        if pid in ("C09", "C10"):
            per = "300" if tier == "quick" else "20000"
            rc, o, _ = vlib.run([vlib.harness_bin(), "refgen-run", "--threads", "8", "--per", per], timeout=3000)
            out.coverage["refgen"] = o.strip().split("\n")[0] if o.strip() else "no output"
            bad = [l for l in o.split("\n") if l.startswith(pid + " refgen")]
            if rc != 0:
                bad.append(pid + " refgen: harness crashed: " + o[-300:])
            if bad:
                rp = vlib.write_replay(pid, "refgen", bad[0], ["rbxverif refgen-run --threads 8 --per " + per] + bad)
                out.violation(bad[0], rp, True)
        # ---- C12 only: the generator of fresh ids (translator pattern + concurrent stress on the implementation)
        if pid == "C12":
            src = open(os.path.join(vlib.REPO, "rbx_types/src/unique_id.rs")).read()
            atomic = re.search(r"static\s+INDEX\s*:\s*AtomicU32", src) and re.search(r"index\s*:\s*INDEX\s*\.\s*fetch_add\(\s*1\s*,", src)
            per = "100000" if tier == "quick" else "3000000"
            rc, o, _ = vlib.run([vlib.harness_bin(), "uidgen-run", "--threads", "16", "--per", per], timeout=3000)
            out.coverage["uidgen"] = o.strip().split("\n")[0] if o.strip() else "no output"
            out.coverage["uidgen_source_pattern"] = bool(atomic)
            bad = [l for l in o.split("\n") if l.startswith("C12 uidgen")]
            if rc != 0:
                bad.append("C12 uidgen: harness crashed: " + o[-300:])
            if bad:
                rp = vlib.write_replay(pid, "uidgen", bad[0], ["rbxverif uidgen-run --threads 16 --per " + per] + bad)
                out.violation(bad[0], rp, True)
            elif not atomic:
                rp = vlib.write_replay(pid, "translator", "UniqueId::now() no longer takes its index by a single INDEX.fetch_add(1, ..) on a static AtomicU32",
                                       ["rbx_types/src/unique_id.rs"], broken="translator pattern for theorem C12_now_distinct_any_schedule (atomic fetch_add step of Model/UidGen.v)")
                out.violation("the atomic-step model of UniqueId::now() is no longer tied to the source; the concurrent stress found no repeated id", rp, False)
        # ---- C12 only: DOMs produced by the XML reader (duplicate / colliding UniqueId properties in documents)
        if pid == "C12" and os.path.exists(os.path.join(vlib.VERIF, "harness", "src", "xmlfile.rs")):
            xl, xb, xs, _ = xml_oracle_stage(pid, d, seed, tier, [("uid", 150), ("foreign", 100), ("hand", 1)], tag="xu")
            k, u = report_oracle_lines(pid, out, xl, xb, "xmlfile", "DOMs decoded by rbx_xml (xmlfile-run, streams uid/foreign/hand)")
            out.coverage["xml_reader_stage"] = {"cases": len(xb), "oracle_lines": len(xl), "known": k, "unlisted": u}
        # ---- report
        if mine:
            cid = mine[0].split(" ")[0]
            lines = bmap[cid]
            small = self.shrink(pid, d, lines, lambda ls: bool(self.fails(pid, d, ls)[0]))
            o2, _ = self.fails(pid, d, small)
            rp = vlib.write_replay(pid, "domops", "implementation oracle: " + (o2[0] if o2 else mine[0]), small)
            out.violation("the implementation violates %s on a concrete history: %s" % (pid, (o2[0] if o2 else mine[0])), rp, True)
        elif dis:
            cid, k, text = dis[0]
            lines = bmap[cid][:k + 1]
            small = self.shrink(pid, d, lines, lambda ls: bool(self.fails(pid, d, ls)[1]))
            o2, d2 = self.fails(pid, d, small)
            what = d2[0][2] if d2 else text
            if pid == "C10":
                # the abstract model IS the documented effect: the disagreement is the failing history
                rp = vlib.write_replay(pid, "domops", "documented effect differs: " + what, small)
                out.violation("real DOM and reference tree model differ: " + what, rp, True)
            elif o2:
                rp = vlib.write_replay(pid, "domops", "implementation oracle: " + o2[0], small)
                out.violation(o2[0], rp, True)
            else:
                rp = vlib.write_replay(pid, "domops", what, small, broken="correspondence dom-ops (%s model of dom.rs vs implementation, projection %s)" % (self.MODEL[pid], pid))
                out.violation("correspondence broken, no property oracle fails on the shrunk history: " + what, rp, False)
        elif broken:
            rp = vlib.write_replay(pid, "proof", broken.split("\n")[0], broken.split("\n"), broken=broken.split("\n")[0])
            out.violation(broken.split("\n")[0], rp, False)

    def replay(self, pid, path):
        meta, body = vlib.read_replay(path)
        d = workdir(pid)
        vlib.build_harness(); vlib.build_model()
        if meta.get("kind") == "refgen":
            rc, o, _ = vlib.run([vlib.harness_bin()] + body[0].split()[1:], timeout=3000)
            bad = [l for l in o.split("\n") if l.startswith(pid + " refgen")]
            for l in bad:
                log("oracle: " + l)
            return 1 if (bad or rc != 0) else 0
        if meta.get("kind") != "domops":
            log("replay names a broken obligation, not an input: " + meta.get("broken", meta.get("what", "")))
            return 1
        o, dis = self.fails(pid, d, [l for l in body if l.strip()])
        for l in o:
            log("oracle: " + l)
        for c, k, t in dis:
            log("disagreement: " + t)
        return 1 if (o or dis) else 0


def small_scope_cases():
    """exhaustive small scope: every sequence of <= 3 structural ops on a fixed 2-DOM world of 5 instances"""
    base = ["new 1 0 0 1 0 U 1 2 2 0 0 1 1 R 3 1 3 0 0 0 0 4 0 0 1 0 U 1 0",
            "new 5 0 0 1 0 U 1 1 6 0 0 1 1 R 1 0"]
    labels0, labels1 = [1, 2, 3, 4], [5, 6]
    ops = []
    for r in labels0[1:]:
        ops.append("destroy 0 %d" % r)
        ops.append("clonew 0 %d" % r)
        ops.append("clonex 0 %d 1" % r)
        for p in labels0:
            ops.append("movew 0 %d %d" % (r, p))
        for p in labels1:
            ops.append("move 0 %d 1 %d" % (r, p))
    ops.append("destroy 1 6"); ops.append("move 1 6 0 2"); ops.append("clonex 1 5 0"); ops.append("clonem 0 1 2 2 4")
    blocks = []
    n = 0
    for a in ops:
        blocks.append(("x%d" % n, base + [a])); n += 1
        for b in ops:
            blocks.append(("x%d" % n, base + [a, b])); n += 1
    import itertools
    few = ops[::3]
    for a, b, c in itertools.product(few, few, few):
        blocks.append(("x%d" % n, base + [a, b, c])); n += 1
    return blocks


for _p in ("C09", "C10", "C11", "C12"):
    REGISTRY[_p] = DomFamily()


# =====================================================================================
# generic correspondence handler: harness subcommand + modelrun subcommand, line-exact comparison
# =====================================================================================
class SimpleCorr:
    """Subclasses set: kind, gen_cmds(seed, tier) -> [argv tail lists for `<kind>-gen`],
    impl_cmd, model_args, rule, assumptions; may override shrink_candidates / classify_known."""
    kind = ""
    model_args = []
    rule = ""
    assumptions = []
    corpus = None

    def gen_blocks(self, pid, d, tier, seed):
        blocks = []
        # corpus/<kind>/ runs for every property decided through this kind, corpus/<kind>.<pid>/ for that property only
        for cdir in (os.path.join(vlib.VERIF, "corpus", self.corpus or self.kind),
                     os.path.join(vlib.VERIF, "corpus", (self.corpus or self.kind) + "." + pid)):
            if os.path.isdir(cdir):
                for f in sorted(os.listdir(cdir)):
                    blocks += vlib.read_blocks(os.path.join(cdir, f))
        self.ncorpus = len(blocks)
        gen = os.path.join(d, "gen.cases")
        for tail in self.gen_cmds(seed, tier):
            rc, o, _ = vlib.run([vlib.harness_bin(), self.kind + "-gen", "--out", gen] + tail, timeout=3000)
            if rc != 0:
                raise RuntimeError(self.kind + "-gen failed: " + o[-2000:])
            blocks += vlib.read_blocks(gen)
        return blocks

    def run_cases(self, d, blocks, tag):
        cases = os.path.join(d, tag + ".cases")
        vlib.write_blocks(cases, blocks)
        obs, orc, st, mo = [os.path.join(d, tag + x) for x in (".impl", ".oracle", ".stats", ".model")]
        rc, o, _ = vlib.run([vlib.harness_bin(), self.kind + "-run", cases, obs, orc, st], timeout=3000)
        if rc != 0:
            raise RuntimeError("harness %s-run failed (rc=%d): %s" % (self.kind, rc, o[-2000:]))
        rc, o, _ = vlib.run([vlib.MODELRUN, self.kind] + self.model_args + [cases, mo], timeout=3000)
        if rc != 0:
            raise RuntimeError("modelrun %s failed: %s" % (self.kind, o[-2000:]))
        return (dict(vlib.read_blocks(obs)), dict(vlib.read_blocks(mo)), [l.rstrip("\n") for l in open(orc)], json.load(open(st)))

    def canon(self, line):
        return line

    def disagreements(self, blocks, impl, model):
        out = []
        for cid, lines in blocks:
            io, mo = impl.get(cid, []), model.get(cid, [])
            for k in range(max(len(io), len(mo))):
                a = io[k] if k < len(io) else "<missing>"
                b = mo[k] if k < len(mo) else "<missing>"
                if self.canon(a) != self.canon(b):
                    out.append((cid, k, "observation %d: implementation `%s` vs model `%s`" % (k, a[:160], b[:160])))
                    break
        return out

    def fails(self, pid, d, lines):
        blocks = [("x", lines)]
        try:
            impl, model, orc, st = self.run_cases(d, blocks, "shrink")
        except RuntimeError as e:
            return [], []
        return [l for l in orc if (" " + pid + " ") in (" " + l + " ")], self.disagreements(blocks, impl, model)

    def shrink_candidates(self, lines):
        for k in range(len(lines) - 1, -1, -1):
            yield lines[:k] + lines[k + 1:]

    def shrink(self, pid, d, lines, pred):
        cur, budget, changed = list(lines), 150, True
        while changed and budget > 0:
            changed = False
            for cand in self.shrink_candidates(cur):
                if budget <= 0:
                    break
                budget -= 1
                if cand and cand != cur and pred(cand):
                    cur = cand; changed = True
                    break
        return cur

    def known_key(self, pid, oracle_line, case_lines):
        """key of the known-findings class this failure belongs to, or None"""
        return None

    def extra(self, pid, out, tier, seed, d):
        """additional implementation-side sweeps; returns list of oracle lines"""
        return []

    def run(self, pid, out, tier, seed, broken):
        d = workdir(pid)
        blocks = self.gen_blocks(pid, d, tier, seed)
        try:
            impl, model, orc, st = self.run_cases(d, blocks, "main")
        except RuntimeError as e:
            if "harness" not in str(e):
                raise
            # the implementation took the harness process down (abort, stack overflow, panic outside catch_unwind):
            # find one case that does it
            culprit = None
            for cid, lines in blocks[:400]:
                try:
                    self.run_cases(d, [(cid, lines)], "crash")
                except RuntimeError:
                    culprit = (cid, lines); break
            body = culprit[1] if culprit else [str(e)[-500:]]
            rp = vlib.write_replay(pid, self.kind, "the implementation crashes the harness process: " + str(e)[-200:], body)
            out.coverage.update({"evaluations": len(blocks), "distinct_nontrivial": 0, "rule": self.rule, "samples": [body[:5]]})
            out.violation("the implementation crashed the harness process on case %s" % (culprit[0] if culprit else "?"), rp, culprit is not None)
            return
        bmap = dict(blocks)
        mine = [l for l in orc if (" " + pid + " ") in (" " + l + " ")]
        mine += ["- " + l for l in self.extra(pid, out, tier, seed, d)]
        dis = self.disagreements(blocks, impl, model)
        known = vlib.known_keys(pid)
        unlisted, seen_known = [], {}
        for l in mine:
            cid = l.split(" ")[0]
            key = self.known_key(pid, l, bmap.get(cid, []))
            if key and key in known:
                seen_known.setdefault(key, l)
            else:
                unlisted.append(l)
        for key, l in seen_known.items():
            out.known.append("key=%s %s (reproduced: %s)" % (key, known[key], l[:200]))
        out.coverage.update({
            "traces_validated_against_impl": len(blocks), "evaluations": len(blocks),
            "distinct_nontrivial": st.get("distinct_nontrivial", 0), "rule": self.rule,
            "samples": [{"case": blocks[k][0], "lines": blocks[k][1][:8]} for k in range(min(3, len(blocks)))],
            "generator": st, "corpus_cases": self.ncorpus, "disagreements": len(dis), "oracle_failures": len(mine),
            "known_findings_reproduced": sorted(seen_known),
        })
        out.assumptions += self.assumptions
        if unlisted:
            l = unlisted[0]
            cid = l.split(" ")[0]
            if cid in bmap:
                small = self.shrink(pid, d, bmap[cid], lambda ls: bool(self.fails(pid, d, ls)[0]))
                o2, _ = self.fails(pid, d, small)
                rp = vlib.write_replay(pid, self.kind, "implementation oracle: " + (o2[0] if o2 else l), small)
            else:
                rp = vlib.write_replay(pid, self.kind + "-sweep", "implementation oracle: " + l, [l])
            out.violation("the implementation violates %s: %s" % (pid, l), rp, True)
        elif dis:
            cid, k, text = dis[0]
            small = self.shrink(pid, d, bmap[cid], lambda ls: bool(self.fails(pid, d, ls)[1]))
            o2, d2 = self.fails(pid, d, small)
            what = d2[0][2] if d2 else text
            if o2:
                rp = vlib.write_replay(pid, self.kind, "implementation oracle: " + o2[0], small)
                out.violation(o2[0], rp, True)
            else:
                rp = vlib.write_replay(pid, self.kind, what, small, broken="correspondence %s (Coq model vs implementation)" % self.kind)
                out.violation("correspondence broken, no property oracle fails on the shrunk case: " + what, rp, False)
        elif broken:
            rp = vlib.write_replay(pid, "proof", broken.split("\n")[0], broken.split("\n"), broken=broken.split("\n")[0])
            out.violation(broken.split("\n")[0], rp, False)

    def replay(self, pid, path):
        meta, body = vlib.read_replay(path)
        d = workdir(pid)
        vlib.build_harness(); vlib.build_model()
        if meta.get("kind") != self.kind:
            log("replay names a broken obligation or sweep, not a case: " + meta.get("broken", meta.get("what", "")))
            return 1
        o, dis = self.fails(pid, d, [l for l in body if l.strip()])
        for l in o:
            log("oracle: " + l)
        for c, k, t in dis:
            log("disagreement: " + t)
        return 1 if (o or dis) else 0


# =====================================================================================
# C18: SharedString intern table under scheduled real threads
# =====================================================================================
class Intern(SimpleCorr):
    kind = "sched"
    model_args = ["fixed"]
    rule = ("thread programs of new/clone/drop over a 2-letter alphabet run on real threads under a controller that enforces the "
            "schedule through the rbx_dom_verif yield hook (one grant = one atomic step: new, clone, last-release, clean-up); "
            "exhaustive: every interleaving of small 2-thread program sets; random: 2-3 threads; after each step table size, every "
            "handle's bytes and buffer identity classes are compared with the extracted Coq transition system; non-trivial = at least "
            "two threads with non-empty programs; distinct by case text")
    assumptions = ["atomicity of SharedString::new's critical section and of Arc::into_inner (hardware/Rust memory model below the step granularity is not modelled)",
                   "blake3 is injective on the contents used (hash identified with content id in the model)"]

    def gen_cmds(self, seed, tier):
        if tier == "quick":
            return [["--seed", str(seed), "--cases", "12", "--exhaustive", "--threads", "2", "--limit", "400"],
                    ["--seed", str(seed), "--cases", "1500", "--max-ops", "4"]]
        return [["--seed", str(seed), "--cases", "60", "--exhaustive", "--threads", "2", "--limit", "3000"],
                ["--seed", str(seed), "--cases", "6", "--exhaustive", "--threads", "3", "--limit", "20000"],
                ["--seed", str(seed), "--cases", "30000", "--max-ops", "6"]]

    def shrink_candidates(self, lines):
        # drop schedule entries one at a time
        for i, l in enumerate(lines):
            if l.startswith("sched "):
                ent = l.split()[1:]
                for k in range(len(ent) - 1, -1, -1):
                    yield lines[:i] + ["sched " + " ".join(ent[:k] + ent[k + 1:])] + lines[i + 1:]

    def extra(self, pid, out, tier, seed, d):
        ops = "100000" if tier == "quick" else "3000000"
        rc, o, _ = vlib.run([vlib.harness_bin(), "sched-soak", "--seed", str(seed), "--threads", "16", "--ops", ops], timeout=3000)
        out.coverage["soak"] = o.strip().split("\n")[-1]
        if rc != 0:
            return ["C18 soak: harness crashed: " + o[-300:]]
        return [l for l in o.split("\n") if l.startswith("C18 ")]


REGISTRY["C18"] = Intern()


# =====================================================================================
# C14: attribute blobs (byte-exact attr correspondence + independent document codec)
# =====================================================================================
class Attr(SimpleCorr):
    kind = "attr"
    rule = ("generated attribute maps (0-40 entries in BTreeMap order; names incl. empty, multi-byte and 70 kB; all 19 supported types "
            "from boundary pools: every float class, all 24 rotations with ulp neighbours and scaled bases, every BrickColor number, "
            "fonts with/without cached face; 8 % of maps contain unsupported types) are encoded by Attributes::to_writer and by the "
            "extracted attr_encode: bytes (or error class) must be identical; both decode the bytes: results identical; a separate "
            "malformed stream (every prefix of a blob holding all types, all 256 type ids, all rotation id bytes, truncations, bit "
            "flips, huge lengths/counts, hostile UTF-8, glued/unsorted/duplicate entries, noise) is decoded by both: result or error "
            "class identical; the document codec AttrSpec (written from docs/attributes.md) decodes every implementation blob to the "
            "same map, and its own encoding of every map is fed to the real reader, which must return the map the document "
            "describes; BrickColor table validated for all 65536 numbers, rotation primitives on boundary vectors; "
            "non-trivial = map with >= 2 entries or byte string of >= 8 bytes, distinct by case text")
    assumptions = ["f32 comparisons of approx_unit_or_zero are modelled by integer thresholds on the bit pattern (validated by attr-sweep against Vector3::to_normal_id: all exponent boundaries and 2M random patterns per quick run, all 2^32 patterns in the thorough tier)",
                   "allocation failure (Vec::with_capacity / vec![0; n] with a length field read from the blob) is outside the model; such inputs are reported for C13 (alloc-abort), not compared",
                   "the harness classifies the private AttributeError by its Display text"]

    def gen_cmds(self, seed, tier):
        # thorough: 60000 cases is about 0.3 GB of implementation output and 0.9 GB of model output (held in memory by the driver)
        return [["--seed", str(seed), "--cases", "5000" if tier == "quick" else "60000"]]

    # ---- spec-side lines
    @staticmethod
    def _payload(lines, prefix):
        for l in lines:
            if l.startswith(prefix):
                return l[len(prefix):]
        return None

    def run_cases(self, d, blocks, tag):
        impl, model, orc, st = SimpleCorr.run_cases(self, d, blocks, tag)
        # second pass: what the document codec writes for each map goes through the real reader, which must
        # return the map the document describes (SPEC want); model and implementation are compared on it as usual
        extra = []
        for cid, lines in blocks:
            ml = model.get(cid, [])
            enc, want = self._payload(ml, "SPEC enc OK "), self._payload(ml, "SPEC want OK ")
            if enc is not None and want is not None:
                extra.append((cid + ".spec", ["bytes " + enc.strip(), "expect " + want.strip()]))
        self.extra_blocks = extra
        if extra:
            impl2, model2, orc2, st2 = SimpleCorr.run_cases(self, d, extra, tag + "-spec")
            impl.update(impl2); model.update(model2); orc += orc2
            st["spec_encoded_blobs_read_by_impl"] = len(extra)
        return impl, model, orc, st

    def disagreements(self, blocks, impl, model):
        out = []
        stats = {"spec_dec_agrees": 0, "spec_dec_doc_silent_on_empty_blob": 0, "spec_reads_back": 0,
                 "bytes_spec_and_impl_ok_equal": 0, "bytes_spec_and_impl_ok_differ": 0, "bytes_both_reject": 0,
                 "bytes_impl_rejects_spec_accepts": 0, "alloc_abort_cases_not_compared": 0}
        for cid, lines in list(blocks) + list(getattr(self, "extra_blocks", [])):
            io = impl.get(cid, [])
            ml = model.get(cid, [])
            mo = [l for l in ml if not l.startswith("SPEC ")]
            if any(l == "dec ABORT" for l in io):
                stats["alloc_abort_cases_not_compared"] += 1
                continue
            bad = None
            for k in range(max(len(io), len(mo))):
                a = io[k] if k < len(io) else "<missing>"
                b = mo[k] if k < len(mo) else "<missing>"
                if a != b:
                    bad = (cid, k, "observation %d: implementation `%s` vs model `%s`" % (k, a[:160], b[:160]))
                    break
            if bad is None:
                dec = self._payload(ml, "dec ")
                sdec = self._payload(ml, "SPEC dec ")
                if dec is not None and sdec is not None:
                    if sdec == dec:
                        stats["spec_dec_agrees"] += 1
                    elif dec.strip() == "OK 0" and self._payload(ml, "enc ") in ("OK -", "OK - "):
                        stats["spec_dec_doc_silent_on_empty_blob"] += 1      # zero bytes: not a blob of the document
                    else:
                        bad = (cid, 1, "document codec disagrees: spec_decode(attr_encode m) = `%s` but the codec decodes `%s`" % (sdec[:160], dec[:160]))
                rdec, want = self._payload(ml, "SPEC rdec "), self._payload(ml, "SPEC want ")
                if bad is None and rdec is not None and want is not None:
                    if rdec == want:
                        stats["spec_reads_back"] += 1
                    else:
                        bad = (cid, 2, "document codec disagrees: attr_decode(spec_encode m) = `%s`, the document describes `%s`" % (rdec[:160], want[:160]))
                bdec = self._payload(ml, "SPEC bdec ")
                if bad is None and bdec is not None and dec is not None:
                    s_ok, i_ok = bdec.startswith("OK"), dec.startswith("OK")
                    if s_ok and i_ok:
                        stats["bytes_spec_and_impl_ok_equal" if bdec == dec else "bytes_spec_and_impl_ok_differ"] += 1
                    elif not s_ok and not i_ok:
                        stats["bytes_both_reject"] += 1
                    elif s_ok:
                        stats["bytes_impl_rejects_spec_accepts"] += 1
                    elif lines and lines[0].strip() != "bytes -":
                        bad = (cid, 1, "the codec accepts a blob the document cannot describe: `%s` (spec: %s)" % (dec[:160], bdec[:60]))
            if bad:
                out.append(bad)
        self.spec_stats = stats
        if getattr(self, "_out", None) is not None:
            self._out.coverage["document_codec"] = stats
            self._out = None
        return out

    def shrink_candidates(self, lines):
        if lines and lines[0].startswith("map "):
            ents = [l for l in lines if l.startswith("e ")]
            for k in range(len(ents) - 1, -1, -1):
                rest = ents[:k] + ents[k + 1:]
                yield ["map %x" % len(rest)] + rest
        elif lines and lines[0].startswith("bytes "):
            h = lines[0][6:].strip()
            h = "" if h == "-" else h
            n = len(h) // 2
            tail = lines[1:]
            for cut in (n // 2, n // 4, 4, 1):
                if 0 < cut < n:
                    yield ["bytes " + h[:2 * (n - cut)]] + tail
            for k in range(min(n, 40)):
                if h[2 * k:2 * k + 2] != "00":
                    yield ["bytes " + h[:2 * k] + "00" + h[2 * k + 2:]] + tail

    def known_key(self, pid, oracle_line, case_lines):
        return "rotation-snap" if "rotation-snap" in oracle_line else None

    def extra(self, pid, out, tier, seed, d):
        lines = []
        self._out = out            # the next disagreements() call (the main run) files its statistics there
        args = [vlib.harness_bin(), "attr-sweep", "--seed", str(seed)] + (["--thorough"] if tier == "thorough" else [])
        rc, o, _ = vlib.run(args, timeout=6000)
        out.coverage["threshold_sweep"] = o.strip().split("\n")[-1]
        if rc != 0:
            lines.append("C14 threshold sweep: harness crashed: " + o[-300:])
        lines += [l for l in o.split("\n") if l.startswith("C14 ")]
        rc, o, _ = vlib.run([vlib.harness_bin(), "val-selftest", "--seed", str(seed), "--cases", "8000"], timeout=600)
        out.coverage["value_wire_format_selftest"] = o.strip().split("\n")[-1]
        if rc != 0:
            lines.append("C14 value wire format self-test failed: " + o[-300:])
        return lines


REGISTRY["C14"] = Attr()


# =====================================================================================
# C16: the bundled reflection database (translator + exhaustive lookup correspondence + default instances)
# =====================================================================================
class Database:
    """pre(): regenerate coq/Gen (Database.v through `rbxverif dbdump`, the tables through tools/translate.py).
    run(): (1) both Rust copies of find_property_descriptors vs Db.find_desc_bin / find_desc_xml on the extracted
    database, for every class x every property name of its chain; (2) every class's default instance through both
    real codecs, and the name-closure probe; (3) the Coq-pinned name-roundtrip offenders against the implementation."""
    rule = ("exhaustive, no sampling: one lookup case per database class with every property/default name occurring in its "
            "superclass chain plus names occurring nowhere, plus unknown classes, through rbx_binary::verif::find_property_descriptors "
            "and rbx_xml::verif::find_{canonical,serialized}_property_descriptor, compared line by line with the extracted Coq "
            "lookups on the extracted Gen/Database.database; then for every class one instance with all serializable defaults of "
            "its chain written and read back by rbx_binary and rbx_xml (values compared as bit patterns), and every serializing "
            "non-migrating canonical property written alone and required to come back under its own name; non-trivial = the "
            "lookup resolves to a descriptor")
    assumptions = [
        "Gen/Database.v is what rbx_reflection_database::get() returns, printed by harness/src/dbdump.rs (map keys = descriptor names, checked by the dump)",
        "Gen/BinaryTypes.v and Gen/MigrationTables.v are regular-expression extractions of the Rust tables (tools/translate.py, fails closed)",
        "rbx_reflector (generation of database.msgpack from a Roblox dump) is not modelled: the general lemmas apply to whatever database passes db_coherent",
        "the Coq lookups are tied to the two Rust copies by this exhaustive differential run (hand-written model)",
    ]

    def pre(self, pid, out, tier, seed):
        import translate
        self.pre_broken = None
        try:
            res = translate.regenerate_for(pid)
            out.coverage["translator"] = {k: (v if isinstance(v, str) else ("rewritten" if v else "unchanged")) for k, v in res.items()}
            changed = any(v is True for v in res.values()) or "written" in str(res.get("Database.v", ""))
            if changed:
                ok, o = vlib.build_model()       # the extracted database must be the regenerated one
                if not ok:
                    self.pre_broken = "the extracted model no longer builds after regenerating coq/Gen:\n" + o[-1500:]
        except Exception as e:                    # TranslateError and anything the translator trips over: a broken tie
            self.pre_broken = "translator failed (source table not found or not understood): %s" % e

    # ---- pieces
    def lookups(self, d, tag, cases=None):
        """returns (blocks, impl, model, oracle lines, stats)"""
        cf = os.path.join(d, tag + ".cases")
        if cases is None:
            rc, o, _ = vlib.run([vlib.harness_bin(), "lookup-gen", "--out", cf], timeout=600)
            if rc != 0:
                raise RuntimeError("lookup-gen failed: " + o[-2000:])
        else:
            vlib.write_blocks(cf, cases)
        obs, orc, st, mo = [os.path.join(d, tag + x) for x in (".impl", ".oracle", ".stats", ".model")]
        rc, o, _ = vlib.run([vlib.harness_bin(), "lookup-run", cf, obs, orc, st], timeout=1200)
        if rc != 0:
            raise RuntimeError("harness lookup-run failed (rc=%d): %s" % (rc, o[-2000:]))
        rc, o, _ = vlib.run([vlib.MODELRUN, "lookup", cf, mo], timeout=1200)
        if rc != 0:
            raise RuntimeError("modelrun lookup failed: " + o[-2000:])
        return (vlib.read_blocks(cf), dict(vlib.read_blocks(obs)), dict(vlib.read_blocks(mo)),
                [l.rstrip("\n") for l in open(orc) if l.strip()], json.load(open(st)))

    def lookup_disagreements(self, blocks, impl, model):
        out = []
        for cid, lines in blocks:
            qs = [l for l in lines if l.startswith("p ")]
            cl = [l for l in lines if l.startswith("class ")]
            io, mo = impl.get(cid, []), model.get(cid, [])
            for k in range(max(len(io), len(mo), len(qs))):
                a = io[k] if k < len(io) else "<missing>"
                b = mo[k] if k < len(mo) else "<missing>"
                if a != b:
                    q = qs[k] if k < len(qs) else "?"
                    out.append((cid, cl + [q], "lookup of `%s` in `%s`: implementation `%s` vs Coq model `%s`" % (q[2:], cid, a[:200], b[:200])))
        return out

    def defaults(self, d, tag, cls=None):
        obs, orc, st = [os.path.join(d, tag + x) for x in (".obs", ".oracle", ".stats")]
        rc, o, _ = vlib.run([vlib.harness_bin(), "dbdefaults-run", obs, orc, st] + (["--class", cls] if cls else []), timeout=3000)
        if rc != 0:
            raise RuntimeError("harness dbdefaults-run failed (rc=%d): %s" % (rc, o[-2000:]))
        return [l.rstrip("\n") for l in open(orc) if l.strip()], json.load(open(st))

    @staticmethod
    def key_of(line):
        """`<class> C16 <format> <kind> <prop>: ...` -> `<kind>:<class>.<prop>` (the key a known-findings entry names)"""
        m = re.match(r"(\S+) C16 (bin|xml) (\S+) ([^:]*):", line)
        return "%s:%s.%s" % (m.group(3), m.group(1), m.group(4)) if m else None

    @staticmethod
    def pinned_name_offenders():
        text = vlib.strip_comments(open(os.path.join(vlib.COQ, "Properties", "C16.v")).read())
        m = re.search(r"offenders_seras_back\s+Database\.database\s*=\s*\[(.*?)\]", text, re.S)
        if not m:
            return None
        return sorted(set(re.findall(r'\(\s*"([^"]*)"\s*,\s*"([^"]*)"\s*\)', m.group(1))))

    def run(self, pid, out, tier, seed, broken):
        d = workdir(pid)
        broken = getattr(self, "pre_broken", None) or broken
        rc, o, _ = vlib.run([vlib.harness_bin(), "dbdump", "--stats"], timeout=120)
        counts = dict(kv.split("=") for kv in o.strip().split()) if rc == 0 else {}
        blocks, impl, model, lorc, lst = self.lookups(d, "lookup")
        dis = self.lookup_disagreements(blocks, impl, model)
        dorc, dst = self.defaults(d, "defaults")
        known = vlib.known_keys(pid)
        unlisted, seen_known = [], {}
        beyond = []
        for l in lorc + dorc:
            key = self.key_of(l)
            if " name-changed " in l:
                # a property whose serialized name decodes to ANOTHER canonical property: C16's text (coherence of the
                # database, lookups cannot fail, default instances round-trip) does not forbid it; it is a matter of
                # C01/C02 ("under its canonical name") and is reported there.  Kept here as an observation only.
                beyond.append(l)
                continue
            if key and key in known:
                seen_known.setdefault(key, l)
            else:
                unlisted.append(l)
        for key, l in seen_known.items():
            out.known.append("key=%s %s (reproduced: %s)" % (key, known[key], l[:240]))
        # the model-side list of name-roundtrip offenders (pinned by a theorem) must be the implementation's
        impl_names = sorted({tuple(self.key_of(l).split(":", 1)[1].split(".", 1)) for l in dorc if " name-changed " in l and self.key_of(l)})
        pinned = self.pinned_name_offenders()
        out.coverage.update({
            "database": {k: int(v) for k, v in counts.items()},
            "exhaustive": True,
            "exhaustive_scope": "all classes, property descriptors, enums and default values of the loaded database (no sampling)",
            "traces_validated_against_impl": lst.get("queries", 0) + dst.get("classes", 0) + dst.get("name_probe_properties", 0),
            "evaluations": lst.get("queries", 0),
            "distinct_nontrivial": lst.get("distinct_nontrivial", 0),
            "rule": self.rule,
            "samples": [{"case": blocks[k][0], "lines": blocks[k][1][:6]} for k in (0, len(blocks) // 2) if k < len(blocks)],
            "generator": {"lookups": lst, "default_instances": dst},
            "corpus_cases": 0, "disagreements": len(dis), "oracle_failures": len(lorc) + len(dorc),
            "known_findings_reproduced": sorted(seen_known),
            "observations_beyond_the_property": beyond[:8],
            "name_roundtrip_offenders": {"implementation": [list(x) for x in impl_names], "coq_pinned": [list(x) for x in (pinned or [])]},
        })
        out.assumptions += self.assumptions
        if unlisted:
            l = unlisted[0]
            cls = l.split(" ")[0]
            rp = vlib.write_replay(pid, "dbdefaults" if l in dorc else "lookup-oracle", "implementation oracle: " + l,
                                   ["class " + cls] + [x for x in unlisted if x.split(" ")[0] == cls][:40])
            out.violation("the implementation violates %s: %s (%d failing lines, %d not listed as known)" % (pid, l, len(lorc) + len(dorc), len(unlisted)), rp, True)
        elif dis:
            cid, case, text = dis[0]
            rp = vlib.write_replay(pid, "lookup", text, case, broken="correspondence lookup (Db.find_desc_bin / find_desc_xml vs both Rust copies of find_property_descriptors)")
            out.violation("correspondence broken (%d of %d lookups differ): %s" % (len(dis), lst.get("queries", 0), text), rp, True)
        elif pinned is not None and [tuple(x) for x in pinned] != impl_names and not broken:
            text = "name-roundtrip offenders: Coq theorem pins %s, the implementation shows %s" % (pinned, impl_names)
            rp = vlib.write_replay(pid, "names", text, [text], broken="C16_bundled_names_roundtrip_refuted vs the name-closure probe")
            out.violation("correspondence broken: " + text, rp, False)
        elif broken:
            rp = vlib.write_replay(pid, "proof", broken.split("\n")[0], broken.split("\n"), broken=broken.split("\n")[0])
            out.violation(broken.split("\n")[0], rp, False)

    def replay(self, pid, path):
        meta, body = vlib.read_replay(path)
        d = workdir(pid)
        vlib.build_harness(); vlib.build_model()
        kind = meta.get("kind")
        body = [l for l in body if l.strip()]
        if kind == "lookup":
            blocks, impl, model, lorc, lst = self.lookups(d, "replay", [("x", body)])
            dis = self.lookup_disagreements(blocks, impl, model)
            for l in lorc:
                log("oracle: " + l)
            for c, case, t in dis:
                log("disagreement: " + t)
            return 1 if (lorc or dis) else 0
        if kind in ("dbdefaults", "lookup-oracle"):
            cls = body[0][6:] if body and body[0].startswith("class ") else None
            if kind == "dbdefaults":
                lines, _ = self.defaults(d, "replay", cls)
            else:
                blocks, impl, model, lines, lst = self.lookups(d, "replay")
                lines = [l for l in lines if l.split(" ")[0] == cls]
            known = vlib.known_keys(pid)
            bad = [l for l in lines if self.key_of(l) not in known]
            for l in bad:
                log("oracle: " + l)
            return 1 if bad else 0
        log("replay names a broken obligation, not an input: " + meta.get("broken", meta.get("what", "")))
        return 1


REGISTRY["C16"] = Database()


# =====================================================================================
# C13: decoders never panic or hang; truncation and I/O faults surface as errors
#   (i) implementation-side exercise `fault-run` (reader delivery, sink failure, XML decoder, process-level
#   behaviour: no Gallina model can carry these, the clause is labelled partial); (ii) the BinBytes
#   correspondence (Coq decoder model vs implementation on mutated files) when that handler exists.
# =====================================================================================
class _SubOutcome:
    """collects a sub-stage's coverage separately; violations / known findings go to the real outcome"""
    def __init__(self, out):
        self.out, self.pid, self.coverage = out, out.pid, {}
        self.assumptions, self.known = out.assumptions, out.known

    def violation(self, what, replay, found_input=True):
        self.out.violation(what, replay, found_input)


class Faults:
    RULE = ("implementation-side exercise of rbx_binary (None/LZ4/Zstd), rbx_xml (default and ReadUnknown options) and the attribute codec, "
            "every decode/encode in a forked worker under catch_unwind with a panic hook (file:line + message), a counting global allocator "
            "(largest request / peak live bytes per decode; requests above 1 GiB refused; RLIMIT_AS backstop), an 8 MiB job stack and a 20 s "
            "watchdog: (a) truncation of each of the 13 hand-made DOMs x 4 encodings + 8 attribute blobs at EVERY byte offset must be Err; "
            "(b) decoding through readers that deliver 1 byte / random sizes / inject ErrorKind::Interrupted must equal the slice reader's outcome "
            "(valid files and mutated ones); (c) a sink failing with io::Error at EVERY output offset (Ok(0) and short-write sinks too) must give "
            "Err, never Ok or a panic; (d) mutation streams: bit flips, byte substitutions, u32 edits {0,1,old-1,old+1,2^24,2^31-1,2^32-1} at every "
            "container field and every payload offset, chunk deletion/duplication/swap/rename/payload cuts/cross-file insertion, 37 hand-crafted "
            "binary files, XML: every text node x ~50 hostile texts, every attribute value x 15 hostile values, every tag x delete/duplicate/swap/"
            "14 renames, 22 special documents (entity bombs, UTF-16, NULs), random bytes; nesting 200..50000 (XML) / 200..200000 (binary PRNT chains), "
            "decode and serialize.  Random choices derive from VERIF_SEED; non-trivial = non-empty input; distinct by (format, input bytes)")

    def fault_run(self, d, tier, seed):
        obs, orc, st = [os.path.join(d, "fault" + x) for x in (".obs", ".oracle", ".stats")]
        for f in (obs, orc, st):
            if os.path.exists(f):
                os.remove(f)
        rc, o, dt = vlib.run([vlib.harness_bin(), "fault-run", "--seed", str(seed), "--tier", tier, obs, orc, st], timeout=3400)
        if rc != 0 or not os.path.exists(st):
            raise RuntimeError("harness fault-run failed (rc=%d): %s" % (rc, o[-2000:]))
        return [l.rstrip("\n") for l in open(obs)], [l.rstrip("\n") for l in open(orc)], json.load(open(st))

    def run(self, pid, out, tier, seed, broken):
        d = workdir(pid)
        # ---- (ii) model correspondence on mutated binary files, if that handler is present
        sub = None
        try:
            handler = BinBytes()
        except NameError:
            handler = None
        if handler is not None:
            sub = _SubOutcome(out)
            handler.run(pid, sub, tier, seed, broken)
            out.coverage["correspondence_binbytes"] = sub.coverage
            broken = None           # reported by that stage if nothing else failed
        # ---- (i) the fault harness
        try:
            obs, orc, st = self.fault_run(d, tier, seed)
        except RuntimeError as e:
            rp = vlib.write_replay(pid, "fault-harness", "the fault harness did not complete", str(e).split("\n"), broken="rbxverif fault-run")
            out.violation("the C13 fault harness did not complete: " + str(e).split("\n")[0][:300], rp, False)
            return
        known = vlib.known_keys(pid)
        keys = st.get("keys", {})
        reproduced, unlisted = [], []
        for key in sorted(keys):
            info = keys[key]
            if key in known:
                reproduced.append(key)
                out.known.append("key=%s %s (reproduced: %d inputs, smallest %d bytes, case %s: %s)"
                                 % (key, known[key], info["count"], info["len"], info["case"], info["message"][:160]))
            else:
                unlisted.append(key)
                what = "%s: %s" % (key, info["message"][:400])
                rp = vlib.write_replay(pid, "fault", what, [info["hex"], info["format"], " ".join(sorted(info.get("sweeps", {})))])
                out.violation("the implementation violates C13 (%d inputs, smallest %d bytes, case %s): %s"
                              % (info["count"], info["len"], info["case"], what), rp, True)
        sweeps = st.get("sweeps", {})
        sub_ev = (sub.coverage.get("evaluations", 0) if sub else 0)
        sub_dn = (sub.coverage.get("distinct_nontrivial", 0) if sub else 0)
        out.coverage.update({
            "evaluations": st["evaluations"] + sub_ev,
            "traces_validated_against_impl": sub_ev,
            "distinct_nontrivial": st["distinct_nontrivial"] + sub_dn,
            "rule": self.RULE,
            "samples": [{"sweep": l.split(" | ")[0]} for l in obs[:3]] + [{"failure": l[:300]} for l in orc[:3]],
            "fault_sweeps": {name: {"jobs": s["jobs"], "distinct": s["distinct"], "failing": s["failing"], "exhaustive": s["exhaustive"],
                                    "classes": dict(sorted(s["classes"].items(), key=lambda kv: -kv[1])[:8])} for name, s in sweeps.items()},
            "exhaustive": True,
            "exhaustive_sweeps": sorted(n for n, s in sweeps.items() if s["exhaustive"]),
            "fixed_set": st.get("fixed_set", {}),
            "fault_wall_s": st.get("wall_s"), "fault_workers": st.get("workers"),
            "failure_keys": {k: keys[k]["count"] for k in sorted(keys)},
            "known_findings_reproduced": reproduced, "unlisted_failure_keys": unlisted,
        })
        out.assumptions += [
            "the reader-delivery, sink-failure, XML-decoder, stack-depth and allocation clauses of C13 are EXERCISED on the implementation, not proven "
            "(std::io adapters, xml-rs, lz4/zstd and the process environment have no Gallina model); `exhaustive` refers to every byte offset of the "
            "fixed file set only",
            "allocation probe: a request counts as unrelated to the input size above 4 MiB + 4096 x input length; single requests above 1 GiB are refused "
            "so that the abort is observed in a forked worker instead of exhausting the machine",
            "stack depth is measured on an 8 MiB thread stack with the harness build profile (opt-level 1); a smaller stack or an unoptimised build overflows earlier",
            "panic keys are derived from the source text at the reported file:line of /repo (robust to line shifts), allocation keys from the first rbx_* frame of the backtrace",
        ]
        if broken and not out.violations:
            rp = vlib.write_replay(pid, "proof", broken.split("\n")[0], broken.split("\n"), broken=broken.split("\n")[0])
            out.violation(broken.split("\n")[0], rp, False)

    def replay(self, pid, path):
        meta, body = vlib.read_replay(path)
        kind = meta.get("kind")
        if kind != "fault":
            try:
                handler = BinBytes()
            except NameError:
                handler = None
            if handler is not None and kind == getattr(handler, "kind", None):
                return handler.replay(pid, path)
            log("replay names a broken obligation, not an input: " + meta.get("broken", meta.get("what", "")))
            return 1
        vlib.build_harness()
        d = workdir(pid)
        hexfile = os.path.join(d, "replay.hex")
        with open(hexfile, "w") as f:
            f.write(body[0].strip() + "\n")
        fmt = body[1].strip()
        log("replaying %d-byte payload, format %s (%s)" % (0 if body[0].strip() == "-" else len(body[0].strip()) // 2, fmt, meta.get("what", "")[:200]))
        rc, o, _ = vlib.run([vlib.harness_bin(), "fault-replay", fmt, "@" + hexfile], timeout=600)
        log(o.rstrip())
        return 1 if rc != 0 else 0


REGISTRY["C13"] = Faults()


# =====================================================================================
# C17: value types through serde / text encodings; JSON wire contract with rbx_dom_lua
#   proven (pure hand-written conversions): Properties/C17.v; tied to rbx_types by the serde17 correspondence;
#   serde_json / bincode / rmp-serde and derive-generated code: implementation sweeps only (labelled partial)
# =====================================================================================
class Serde17(SimpleCorr):
    kind = "serde17"
    rule = ("(a) modelled text/table/blob conversions, implementation vs extracted Coq model, line-exact: Ref and UniqueId Display then "
            "FromStr on boundary + random values (all sign/size classes of `random`), Ref::from_str / UniqueId::from_str on malformed "
            "strings (signs, case, overflow by one, wrong lengths, non-ASCII at every field boundary: result or error class or panic), "
            "Tags encode/decode on lists with empty/NUL-containing/multi-byte tags and decode on hostile blobs, MaterialColors "
            "encode/decode on maps and on 69-byte and wrong-length blobs, Faces/Axes name lists (duplicates, any order, unknown names); "
            "EXHAUSTIVE: all 65536 BrickColor numbers (from_number, Display, to_color3uint8, from_name), all 256 bytes as Faces and as "
            "Axes (both serde forms), all 65536 FontWeight numbers and 256 FontStyle numbers; "
            "(b) implementation sweeps: every one of the 40 Variant types from boundary pools (every float class incl. NaN payloads, "
            "signed zeros, subnormals; integer extremes; empty/NUL/multi-byte/64 kB strings; nested Attributes) through serde_json "
            "to_string/from_str, to_vec/from_slice, to_writer/from_reader, to_value/from_value, bincode, rmp-serde to_vec and "
            "to_vec_named: decode(encode(v)) = v by bit pattern (values holding NaN/inf go through JSON as their finite twin; what "
            "serde_json does with the original is classified in `generator`); (c) EXHAUSTIVE: every sample of "
            "rbx_dom_lua/src/allValues.json decodes to its stated type and re-encodes to the same JSON document, then goes through "
            "(b); non-trivial = every item; distinct by item text")
    assumptions = [
        "serde_json, bincode, rmp-serde and the derive-generated Serialize/Deserialize impls are not modelled: their part of C17 is checked on the implementation only (sampled per type, exhaustive over the fixture)",
        "the Coq models of referent.rs, unique_id.rs, tags.rs, material_colors.rs, faces.rs, axes.rs, brick_color.rs, font.rs are hand-written and tied to the code by the serde17 correspondence; tables are regenerated from the source by tools/translate17.py (+ translate.py for the BrickColor rows)",
        "Rust std semantics assumed by the model and validated by the correspondence: `{:0Nx}` formatting, `from_str_radix` (sign, digit, overflow order), `str::is_ascii`, `u64 as i64`, `String::from_utf8` validity; `str` slicing off a char boundary panics (kept in the model of UniqueId::from_str, proven unreachable since /repo 680c0119: C17_uid_from_str_no_panic; a panic of the implementation is reported as `uniqueid-fromstr-panic`)",
        "values of Ref are constructed for the text checks through their bincode form (Ref has no public constructor from u128)",
    ]

    BORROWED = {"sharedstring", "binarystring", "faces", "axes"}

    def pre(self, pid, out, tier, seed):
        import translate17
        self.pre_broken = None
        try:
            res = translate17.regenerate()
            out.coverage["translator"] = {k: ("rewritten" if v else "unchanged") for k, v in res.items()}
            if any(res.values()):
                ok, o = vlib.build_model()       # the extracted tables must be the regenerated ones
                if not ok:
                    self.pre_broken = "the extracted model no longer builds after regenerating coq/Gen/Types17.v:\n" + o[-1500:]
        except Exception as e:                    # TranslateError and anything the translator trips over: a broken tie
            self.pre_broken = "translator failed (source table not found or not understood): %s" % e

    def gen_cmds(self, seed, tier):
        nv, nt = (1500, 600) if tier == "quick" else (60000, 30000)
        return [["--seed", str(seed), "--cases", str(nv), "--part", "values"],
                ["--seed", str(seed), "--cases", str(nt), "--part", "text"],
                ["--part", "exhaustive"],
                ["--part", "fixture"]]

    def known_key(self, pid, oracle_line, case_lines):
        """oracle key -> class key of known-findings.txt (each class names one root cause)"""
        parts = oracle_line.split(" ", 3)
        if len(parts) < 3:
            return None
        key, msg = parts[2], (parts[3] if len(parts) > 3 else "")
        m = re.match(r"([a-z0-9]+)-(reader|value)$", key)
        if m and m.group(1) in self.BORROWED:
            # <&str>::deserialize / next_element::<&str>() cannot borrow from a reader or a serde_json::Value
            return m.group(1) + "-borrowed-str" if "expected a borrowed string" in msg else key
        if key == "tags-blob-empty-piece":
            return "tags-empty"
        return key

    def token_stage(self, d, seed, tier):
        """(oracle lines, disagreements, stats, blocks) of the serde token stage"""
        cases = os.path.join(d, "tok.cases")
        rc, o, _ = vlib.run([vlib.harness_bin(), "serdetok-gen", "--seed", str(seed), "--cases", "300" if tier == "quick" else "20000", "--out", cases], timeout=600)
        if rc != 0:
            return ["tok C17 tok-harness the token stage could not generate its cases: %s" % o[-200:].replace("\n", " ")], [], {}, {}
        obs, orc, st = [os.path.join(d, "tok" + x) for x in (".impl", ".oracle", ".stats")]
        rc, o, _ = vlib.run([vlib.harness_bin(), "serdetok-run", cases, obs, orc, st], timeout=1200)
        if rc != 0:
            return ["tok C17 tok-harness the token stage could not run: %s" % o[-200:].replace("\n", " ")], [], {}, {}
        lines = [l.rstrip("\n") for l in open(orc) if " C17 " in l]
        stats = json.load(open(st))
        blocks = vlib.read_blocks(cases)
        dis = []
        mobs = os.path.join(d, "tok.model")
        rc, o, _ = vlib.run([vlib.MODELRUN, "serdetok", cases, mobs], timeout=1200)
        if rc == 0 and os.path.exists(mobs):
            a, b = dict(vlib.read_blocks(obs)), dict(vlib.read_blocks(mobs))
            for cid, _ in blocks:
                io, mo = a.get(cid, []), b.get(cid, [])
                if io != mo:
                    k = 0
                    while k < min(len(io), len(mo)) and io[k] == mo[k]:
                        k += 1
                    dis.append((cid, k, "serde data model, line %d: implementation `%s` vs model `%s`" % (k, (io[k] if k < len(io) else "<missing>")[:200], (mo[k] if k < len(mo) else "<missing>")[:200])))
            stats["compared_with_model"] = len(blocks)
        else:
            stats["compared_with_model"] = 0
            stats["model_runner"] = "modelrun has no serdetok kind yet (token streams checked on the implementation only)"
        return lines, dis[:3], stats, dict(blocks)

    def run(self, pid, out, tier, seed, broken):
        broken = broken or getattr(self, "pre_broken", None)
        d = workdir(pid)
        blocks = self.gen_blocks(pid, d, tier, seed)
        impl, model, orc, st = self.run_cases(d, blocks, "main")
        bmap = dict(blocks)
        mine = [l for l in orc if (" " + pid + " ") in (" " + l + " ")]
        dis = self.disagreements(blocks, impl, model)
        # the serde DATA MODEL of the eight hand-written impls (harness/src/serdetok.rs, Model/Serde17.v): a recording Serializer and a
        # replaying Deserializer with is_human_readable as a parameter; tokens compared with the extracted model, values must survive
        tk_lines, tk_dis, tk_stats, tk_blocks = self.token_stage(d, seed, tier)
        mine += tk_lines
        dis += tk_dis
        bmap.update(tk_blocks)
        out.coverage["serde_token_stage"] = tk_stats
        known = vlib.known_keys(pid)
        unlisted, seen_known = {}, {}
        for l in mine:
            cid = l.split(" ")[0]
            key = self.known_key(pid, l, bmap.get(cid, []))
            if key and key in known:
                seen_known.setdefault(key, l)
            else:
                unlisted.setdefault(key or "?", l)
        for key, l in seen_known.items():
            out.known.append("key=%s %s (reproduced: %s)" % (key, known[key], l[:240]))
        nobs = sum(len(v) for v in impl.values())
        out.coverage.update({
            "traces_validated_against_impl": nobs, "evaluations": sum(len(b[1]) for b in blocks),
            "distinct_nontrivial": st.get("distinct_nontrivial", 0), "rule": self.rule,
            "samples": [{"case": blocks[k][0], "lines": [x[:160] for x in blocks[k][1][:6]]} for k in range(min(3, len(blocks)))],
            "generator": st, "corpus_cases": self.ncorpus, "cases": len(blocks), "disagreements": len(dis),
            "oracle_failures": sum(st.get("oracle_failures_by_key", {}).values()),
            "oracle_failures_by_key": st.get("oracle_failures_by_key", {}),
            "known_findings_reproduced": sorted(seen_known), "unlisted_failure_classes": sorted(unlisted),
            "partial": "serde libraries and derive-generated code are exercised, not modelled; the fixture lacks samples of: %s"
                       % ", ".join(st.get("fixture_types_without_sample", [])),
        })
        out.assumptions += self.assumptions
        # one violation per distinct unlisted failure class, each with its own shrunk replay
        for key, l in sorted(unlisted.items()):
            cid = l.split(" ")[0]
            hit = lambda ls, key=key: [x for x in self.fails(pid, d, ls)[0] if self.known_key(pid, x, ls) == key]
            if cid in bmap:
                small = self.shrink(pid, d, bmap[cid], lambda ls: bool(hit(ls)))
                o2 = hit(small)
                text = o2[0] if o2 else l
                rp = vlib.write_replay(pid, self.kind, "implementation oracle: " + text, small)
            else:
                text = l
                rp = vlib.write_replay(pid, self.kind + "-sweep", "implementation oracle: " + l, [l])
            out.violation("the implementation violates %s [%s]: %s" % (pid, key, text.split(" ", 3)[-1][:600]), rp, True)
        if dis:
            cid, k, text = dis[0]
            small = self.shrink(pid, d, bmap[cid], lambda ls: bool(self.fails(pid, d, ls)[1]))
            _, d2 = self.fails(pid, d, small)
            what = d2[0][2] if d2 else text
            rp = vlib.write_replay(pid, self.kind, what, small, broken="correspondence serde17 (Coq models of the rbx_types text/table/blob conversions vs implementation)")
            out.violation("correspondence broken (model and implementation disagree on a modelled conversion): " + what, rp, False)
        if broken:
            rp = vlib.write_replay(pid, "proof", broken.split("\n")[0], broken.split("\n"), broken=broken.split("\n")[0])
            out.violation(broken.split("\n")[0], rp, False)


REGISTRY["C17"] = Serde17()


# =====================================================================================
# C02 / C05: XML codec (xmlfile correspondence: Model/XmlFile.v above XmlEvents.channel; xmlchannel validates channel)
# =====================================================================================
class XmlFile(SimpleCorr):
    """C02 and C05 share one correspondence run; each filters its own oracle lines.  `xmlfile-run` also prints the
    oracle lines of C06 C07 C12 C15 (XML side) for the handlers that own those properties."""
    kind = "xmlfile"
    rule = ("(a) xmlchannel: random well-nested write-event lists (all XML 1.0 characters, `]]>`, markup characters, CR/LF, "
            "whitespace-only and empty strings, adjacent text events, multi-root, unbalanced, illegal characters) through the real "
            "XmlEventWriter -> text -> XmlEventReader versus the extracted `channel`: read events identical; "
            "(b) xmlfile, DOM cases: generated DOMs over the ~800 database classes (properties by canonical, alias and legacy names, "
            "values of the declared, convertible and arbitrary types from boundary pools, unknown classes and properties, Refs inside / "
            "outside / absent, shared SharedStrings, duplicate UniqueIds, trees up to 300 levels, every Encode x Decode behaviour "
            "pairing) through rbx_xml::to_writer -> real reader events -> rbx_xml::from_reader versus xml_encode -> channel -> "
            "xml_decode: event lists, decoded DOMs (pre-order labels, bit-exact floats) and error classes identical; "
            "(c) xmlfile, text cases: hand-made documents, mutated serializer output and documents of an independent writer made "
            "from docs/xml.md (UUID referents, shuffled properties, Meta/External, forward refs, ProtectedString, CDATA, wrapped "
            "base64, float spellings, dictionary first) decoded by both; (d) implementation-only oracles: C02 round trip against the "
            "source DOM for the retained pairings, C05 writer clauses with expat (tools/xmlcheck.py), C05 reader on the spec "
            "documents; non-trivial = DOM with >= 2 instances and >= 2 properties or document with >= 4 elements; distinct by case text")
    assumptions = [
        "float <-> decimal text (Display/FromStr of f32/f64), Color3->Color3uint8 quantisation and u8/255.0 are oracles of the model: per case the harness supplies the table of the arguments that occur, computed by the Rust standard library; a missing entry is reported as TABLE-MISS, never guessed",
        "xml-rs is not modelled: the model works above the event abstraction; `channel` (emitter+parser+wrapper on event lists) is validated by the xmlchannel correspondence on every run",
        "SharedString hashes (blake3) are supplied per content by the harness; the model only orders and truncates them",
        "the harness classifies the crate-private DecodeErrorKind/EncodeErrorKind by their Display text",
        "C05 writer direction uses Python's expat (xml.etree) as the independent XML parser and tools/xmlcheck.py as the layout checker written from docs/xml.md",
    ]
    STREAMS_QUICK = [("dom", "d", 1500), ("unknown", "k", 500), ("opts", "o", 400), ("deep", "p", 40), ("illegal", "i", 150),
                     ("uid", "u", 150), ("bin", "b", 500), ("mut", "m", 700), ("hand", "h", 46), ("foreign", "f", 600), ("mig", "g", 600)]

    def gen_cmds(self, seed, tier):
        mul = 1 if tier == "quick" else 12
        return [["--seed", str(seed), "--cases", str(n * (1 if s == "hand" else mul)), "--stream", s, "--prefix", p]
                for s, p, n in self.STREAMS_QUICK]

    def run_cases(self, d, blocks, tag):
        # the extracted model recurses on list lengths (OCaml native code uses the system stack): children inherit the limit
        import resource
        soft, hard = resource.getrlimit(resource.RLIMIT_STACK)
        want = hard if hard != resource.RLIM_INFINITY else (1 << 30)
        if soft != resource.RLIM_INFINITY and soft < want:
            resource.setrlimit(resource.RLIMIT_STACK, (want, hard))
        impl, model, orc, st = SimpleCorr.run_cases(self, d, blocks, tag)
        # C05 writer direction: every text the real serializer produced, through expat + the docs/xml.md layout checker
        import xmlcheck
        texts = dict(vlib.read_blocks(os.path.join(d, tag + ".impl.texts")))
        bmap = dict(blocks)
        nchk = 0
        for cid, lines in texts.items():
            if not lines or not lines[0].startswith("TEXT "):
                continue
            case = bmap.get(cid, [])
            if any(l == "opt stream illegal" for l in case):
                continue                      # strings outside XML 1.0 are outside the quantifier
            h = lines[0][5:].strip()
            nchk += 1
            for key, msg in xmlcheck.check(bytes.fromhex("" if h == "-" else h), case):
                orc.append("%s C05 %s %s" % (cid, key, msg.replace("\n", " ")[:400]))
        st["c05_writer_documents_checked_with_expat"] = nchk
        # ... and the decoder written from docs/xml.md (Spec/XmlSpec.v, extracted) on the same documents
        nspec = 0
        for cid, lines in vlib.read_blocks(os.path.join(d, tag + ".model.spec")):
            for l in lines:
                if l.startswith("SPEC OK"):
                    nspec += 1
                elif l.startswith("SPEC DIFF"):
                    orc.append("%s C05 spec-decoder %s" % (cid, l[10:]))
        st["c05_writer_documents_decoded_by_xspec"] = nspec
        # the channel model is part of the tie: validate it in the same run
        if tag == "main":
            st["xmlchannel"] = self.channel_run(d)
        return impl, model, orc, st

    def channel_run(self, d):
        cases, obs, orc, stt, mo = [os.path.join(d, "chan" + x) for x in (".cases", ".impl", ".oracle", ".stats", ".model")]
        n = getattr(self, "chan_cases", 3000)
        seed = getattr(self, "chan_seed", 1)
        for cmd in ([vlib.harness_bin(), "xmlchannel-gen", "--seed", str(seed), "--cases", str(n), "--out", cases],
                    [vlib.harness_bin(), "xmlchannel-run", cases, obs, orc, stt],
                    [vlib.MODELRUN, "xmlchannel", cases, mo]):
            rc, o, _ = vlib.run(cmd, timeout=3000)
            if rc != 0:
                return {"error": o[-400:]}
        a, b = dict(vlib.read_blocks(obs)), dict(vlib.read_blocks(mo))
        bad = [k for k in a if a[k] != b.get(k)]
        s = json.load(open(stt))
        s["disagreements"] = len(bad)
        s["first_disagreement"] = bad[0] if bad else None
        return s

    def known_key(self, pid, oracle_line, case_lines):
        parts = oracle_line.split(" ", 3)
        return parts[2] if len(parts) >= 3 else None

    def shrink_candidates(self, lines):
        """drop a whole node (with its props), then single prop lines, then table lines are left alone"""
        idx = [i for i, l in enumerate(lines) if l.startswith("node ")]
        for k in range(len(idx) - 1, -1, -1):
            a = idx[k]
            b = idx[k + 1] if k + 1 < len(idx) else next((i for i in range(a + 1, len(lines)) if not lines[i].startswith("prop ")), len(lines))
            label = lines[a].split(" ")[1]
            if any(l.startswith("node ") and l.split(" ")[2] == label for l in lines):
                continue                      # has children
            nprops = b - a - 1
            cand = lines[:a] + lines[b:]
            cand = [("roots " + " ".join(x for x in l.split(" ")[1:] if x != label)) if l.startswith("roots ") else l for l in cand]
            yield cand
        for i in range(len(lines) - 1, -1, -1):
            if lines[i].startswith("prop "):
                # the node line carries the number of props
                j = max(k for k in idx if k < i)
                p = lines[j].split(" ")
                p[5] = "%x" % (int(p[5], 16) - 1)
                yield lines[:j] + [" ".join(p)] + lines[j + 1:i] + lines[i + 1:]

    def run(self, pid, out, tier, seed, broken):
        d = workdir(pid)
        self.chan_cases = 3000 if tier == "quick" else 60000
        self.chan_seed = seed
        blocks = self.gen_blocks(pid, d, tier, seed)
        impl, model, orc, st = self.run_cases(d, blocks, "main")
        bmap = dict(blocks)
        mine = [l for l in orc if (" " + pid + " ") in (" " + l + " ")]
        if pid == "C02":
            xl, xst = extreme_stage(pid, d, "xml")
            mine += xl
            out.coverage["extremes"] = xst
            ol = option_order_stage(pid)
            mine += ol
            out.coverage["option_order_probe"] = {"lines": len(ol)}
        dis = self.disagreements(blocks, impl, model)
        known = vlib.known_keys(pid)
        unlisted, seen_known, counts = {}, {}, {}
        for l in mine:
            cid = l.split(" ")[0]
            key = self.known_key(pid, l, bmap.get(cid, []))
            counts[key] = counts.get(key, 0) + 1
            if key and key in known:
                seen_known.setdefault(key, l)
            else:
                unlisted.setdefault(key or "?", l)
        for key, l in seen_known.items():
            out.known.append("key=%s %s (reproduced: %s)" % (key, known[key], l[:240]))
        chan = st.get("xmlchannel", {})
        out.coverage.update({
            "traces_validated_against_impl": len(blocks) + chan.get("cases", 0), "evaluations": len(blocks),
            "distinct_nontrivial": st.get("distinct_nontrivial", 0), "rule": self.rule,
            "samples": [{"case": blocks[k][0], "lines": [x[:160] for x in blocks[k][1][:8]]} for k in range(min(3, len(blocks)))],
            "generator": st, "corpus_cases": self.ncorpus, "disagreements": len(dis), "oracle_failures": len(mine),
            "oracle_failures_by_key": counts, "known_findings_reproduced": sorted(seen_known),
            "unlisted_failure_classes": sorted(unlisted),
            "oracle_lines_of_other_properties": {p: sum(1 for l in orc if (" " + p + " ") in l) for p in ("C06", "C07", "C12", "C15")},
        })
        out.assumptions += self.assumptions
        for key, l in sorted(unlisted.items()):
            cid = l.split(" ")[0]
            hit = lambda ls, key=key: [x for x in self.fails(pid, d, ls)[0] if self.known_key(pid, x, ls) == key]
            if cid in bmap and bmap[cid] and bmap[cid][0] == "kind dom" and len(bmap[cid]) < 400:
                small = self.shrink(pid, d, bmap[cid], lambda ls: bool(hit(ls)))
                o2 = hit(small)
                text = o2[0] if o2 else l
                rp = vlib.write_replay(pid, self.kind, "implementation oracle: " + text, small)
            elif cid in bmap:
                text = l
                rp = vlib.write_replay(pid, self.kind, "implementation oracle: " + l, bmap[cid])
            else:
                text = l
                rp = vlib.write_replay(pid, self.kind + "-sweep", "implementation oracle: " + l, [l])
            out.violation("the implementation violates %s [%s]: %s" % (pid, key, text.split(" ", 3)[-1][:600]), rp, True)
        if chan.get("disagreements") or chan.get("error"):
            rp = vlib.write_replay(pid, "xmlchannel", "channel model and real XmlEventWriter/XmlEventReader disagree", [json.dumps(chan)],
                                   broken="correspondence xmlchannel (Model/XmlEvents.v channel vs xml-rs as configured by rbx_xml)")
            out.violation("correspondence broken: the `channel` function no longer describes the real emitter+parser pair: %s" % json.dumps(chan)[:300], rp, False)
        if dis:
            cid, k, text = dis[0]
            small = self.shrink(pid, d, bmap[cid], lambda ls: bool(self.fails(pid, d, ls)[1])) if bmap[cid][0] == "kind dom" and len(bmap[cid]) < 400 else bmap[cid]
            _, d2 = self.fails(pid, d, small)
            what = d2[0][2] if d2 else text
            rp = vlib.write_replay(pid, self.kind, what, small, broken="correspondence xmlfile (Coq model of rbx_xml vs implementation)")
            out.violation("correspondence broken (model and implementation disagree): " + what, rp, False)
        if broken:
            rp = vlib.write_replay(pid, "proof", broken.split("\n")[0], broken.split("\n"), broken=broken.split("\n")[0])
            out.violation(broken.split("\n")[0], rp, False)


for _p in ("C02", "C05"):
    REGISTRY[_p] = XmlFile()


# =====================================================================================
# C01 / C07 / C08: whole-file correspondence of rbx_binary (kind binfile) + implementation oracles;
# BinBytes: outcome-class correspondence on arbitrary bytes (kind binbytes; a stage of C13, not registered here)
# =====================================================================================
def _forest_nodes(lines):
    """split a forest case into (head lines, [node blocks], tail lines)"""
    head, nodes, tail, cur = [], [], [], None
    for l in lines:
        if l.startswith("node "):
            cur = [l]; nodes.append(cur)
        elif l.startswith("prop ") and cur is not None:
            cur.append(l)
        elif l.startswith("roots"):
            tail.append(l); cur = None
        else:
            (head if not nodes else tail).append(l)
    return head, nodes, tail


def option_order_stage(pid):
    """the option builders' setters commute (harness/src/migcustom.rs optorder: both call orders of every two-setter builder under
    a custom reflection database); returns this property's oracle lines `optorder <pid> option-order ...`"""
    rc, o, _ = vlib.run([vlib.harness_bin(), "optorder-run"], timeout=600)
    if rc != 0 or "optorder done" not in o:
        return ["optorder %s option-order-harness the option-order probe could not run: %s" % (pid, o[-300:].replace("\n", " "))]
    return [l for l in o.split("\n") if l.startswith("optorder " + pid + " ")]


def extreme_stage(pid, d, fmt):
    """implementation-side round trips at sizes the extracted model cannot afford (harness/src/extreme.rs): byte strings around
    2^16 / 2^20 in every string-like position, deep chains, wide fan-out, many classes; one child process per case.
    Returns (oracle lines, stats)."""
    orc, st = os.path.join(d, "extreme.oracle"), os.path.join(d, "extreme.stats")
    rc, o, _ = vlib.run([vlib.harness_bin(), "extreme-run", fmt, orc, st], timeout=1200)
    if rc != 0:
        return ["extreme-run %s extreme-harness the extremes stage could not run: %s" % (pid, o[-300:].replace("\n", " "))], {}
    lines = [l.rstrip("\n") for l in open(orc) if (" " + pid + " ") in l]
    return lines, json.load(open(st))


class BinFile(SimpleCorr):
    kind = "binfile"
    model_args = ["real"]
    rule = ("DOM cases (notes/forest-format.md) from VERIF_SEED: depth-, fan-out- and randomly attached trees of 1-70 instances, 70 percent database "
            "classes (weighted to classes with aliases / migrations / SerializesAs), 30 percent unknown classes, property sets drawn per class from "
            "the database with canonical/alias/legacy spellings chosen per instance plus properties unknown to the database, values from the "
            "boundary pools of val.rs (NaN payloads, subnormals, MIN/MAX, non-UTF-8 and 70 kB blobs, all 24 rotations and neighbours), planted Refs "
            "inside/outside the written set, SharedStrings, multi-root selections; a fifth of the cases are <= 4 same-class siblings (C08). Each case is "
            "serialized by rbx_binary with None/LZ4/Zstd and read back; the extracted Coq model must produce the identical file bytes (None), identical "
            "de-framed chunk payloads (LZ4/Zstd) and the identical decoded DOM. Hash iteration orders, colour quantisation and blake3 hashes are "
            "observed on the implementation and handed to the model as parameters. non-trivial = two instances of one class, or two siblings, or a "
            "Ref / SharedString; distinct by case text")
    assumptions = ["the Coq model of rbx_binary is hand-written; it is tied to the crate by this byte-exact differential run only",
                   "lz4 / zstd / blake3 are not modelled (compression as a function parameter; chunk payloads compared after de-framing with the crate's own Chunk::decode)",
                   "iteration orders of Instance.properties and of alias sets are parameters of the model, supplied from the implementation per case",
                   "Color3 -> Color3uint8 channel quantisation is a parameter of the model (table observed per case)"]

    def gen_cmds(self, seed, tier):
        s = str(seed)
        if tier == "quick":
            return [["--seed", s, "--cases", "700"],
                    ["--seed", s, "--cases", "250", "--unknown-only", "--prefix", "u"],
                    ["--seed", s, "--cases", "300", "--same-class", "--max-nodes", "4", "--prefix", "s"]]
        return [["--seed", s, "--cases", "12000"],
                ["--seed", s, "--cases", "3000", "--unknown-only", "--prefix", "u"],
                ["--seed", s, "--cases", "5000", "--same-class", "--max-nodes", "4", "--prefix", "s"],
                ["--seed", s, "--cases", "300", "--max-nodes", "200", "--prefix", "L"]]

    def known_key(self, pid, oracle_line, case_lines):
        t = oracle_line.split(" ")
        return t[2] if len(t) > 2 else None

    def extra(self, pid, out, tier, seed, d):
        if pid != "C01":
            return []
        lines, st = extreme_stage(pid, d, "bin")
        out.coverage["extremes"] = st
        ol = option_order_stage(pid)
        out.coverage["option_order_probe"] = {"lines": len(ol)}
        return lines + ol

    def shrink_candidates(self, lines):
        head, nodes, tail = _forest_nodes(lines)
        labels = [n[0].split()[1] for n in nodes]
        parents = [n[0].split()[2] for n in nodes]
        # drop a leaf instance
        for k in range(len(nodes) - 1, -1, -1):
            if labels[k] in parents:
                continue
            t2 = []
            for l in tail:
                if l.startswith("roots"):
                    t2.append(" ".join(["roots"] + [x for x in l.split()[1:] if x != labels[k]]))
                else:
                    t2.append(l)
            yield head + [x for j, n in enumerate(nodes) if j != k for x in n] + t2
        # drop one property
        for k in range(len(nodes)):
            n = nodes[k]
            for j in range(len(n) - 1, 0, -1):
                hd = n[0].split()
                hd[5] = "%x" % (len(n) - 2)
                n2 = [" ".join(hd)] + n[1:j] + n[j + 1:]
                yield head + [x for i, m in enumerate(nodes) for x in (n2 if i == k else m)] + tail


for _p in ("C01", "C07", "C08"):
    REGISTRY[_p] = BinFile()


class BinBytes(SimpleCorr):
    """outcome-class (and decoded-DOM) correspondence of rbx_binary::from_reader with the Coq decoder model on mutated files;
    used as a stage of C13 (instantiate and call run / or run_cases + disagreements)"""
    kind = "binbytes"
    model_args = ["real"]
    rule = ("valid files written by rbx_binary (None / LZ4 / Zstd) mutated by bit flips, byte substitutions, 32-bit field edits (chunk header fields, "
            "header counts, payload counts), chunk splicing (delete / duplicate / swap / foreign chunk / unknown name), random tails, and every "
            "truncation offset of the smallest files; decoded by the implementation in a worker process (abort and hang observed) and by the "
            "extracted Coq decoder model; compared: Ok + decoded DOM / Err class / panic. Where the model shows an input field requesting more "
            "than 64 MiB (BIGALLOC) the implementation may also abort. distinct by bytes")
    assumptions = ["lz4 / zstd inflation of the compressed chunks met by the chunk loop is taken from the crate (hints), not modelled",
                   "allocations are compared by class only: the model marks a request above 64 MiB, the implementation may abort there"]

    def gen_cmds(self, seed, tier):
        if tier == "quick":
            return [["--seed", str(seed), "--cases", "1500", "--all-prefixes", "2"]]
        return [["--seed", str(seed), "--cases", "30000", "--all-prefixes", "12"]]

    def known_key(self, pid, oracle_line, case_lines):
        t = oracle_line.split(" ")
        return t[2] if len(t) > 2 else None

    def run_cases(self, d, blocks, tag):
        impl, model, orc, st = SimpleCorr.run_cases(self, d, blocks, tag)
        # an abort of the worker process on an allocation is attributed through the decoder MODEL: when the model shows an input
        # field requesting more than 64 MiB (BIGALLOC) the abort belongs to the recorded class of count-sized allocations (whether
        # the allocator refuses such a request depends on the machine's memory and overcommit policy); any other abort keeps the
        # unlisted key `abort-alloc`.  Site attribution (bin-alloc-<site>) is done by the fault stage with its allocation probe.
        out = []
        for l in orc:
            t = l.split(" ")
            if len(t) > 2 and t[2] in ("abort-alloc", "hang"):
                mo = model.get(t[0], [])
                if mo and mo[-1] == "BIGALLOC":
                    # same cause seen through another memory policy: the request is granted lazily and the worker spends
                    # its time (or is killed) filling it
                    t[2] = "abort-alloc-count-field" if t[2] == "abort-alloc" else "hang-alloc-count-field"
                    l = " ".join(t)
            out.append(l)
        return impl, model, out, st

    def disagreements(self, blocks, impl, model):
        out = []
        for cid, lines in blocks:
            io, mo = impl.get(cid, []), list(model.get(cid, []))
            if mo and mo[-1] == "BIGALLOC":
                continue                # an input field asks for > 64 MiB: abort or any later outcome is possible
            if io != mo:
                k = 0
                while k < min(len(io), len(mo)) and io[k] == mo[k]:
                    k += 1
                a = io[k] if k < len(io) else "<missing>"
                b = mo[k] if k < len(mo) else "<missing>"
                out.append((cid, k, "observation %d: implementation `%s` vs model `%s`" % (k, a[:160], b[:160])))
        return out

    def shrink_candidates(self, lines):
        # byte strings: cut the tail, then zero bytes
        for i, l in enumerate(lines):
            if l.startswith("bytes "):
                h = l.split()[1] if len(l.split()) > 1 else ""
                if h == "-":
                    return
                n = len(h) // 2
                for cut in (n // 2, n - 16, n - 1):
                    if 0 < cut < n:
                        yield lines[:i] + ["bytes " + h[:2 * cut]] + lines[i + 1:]


# =====================================================================================
# C03 / C04: the document side of the binary format (Spec/BinSpec.v + Spec/Lz4.v, kind binspec)
# =====================================================================================
class BinSpec(SimpleCorr):
    """C03: files the real serializer writes are decoded by the extracted document codec and compared with the source DOM;
    C04: files the extracted document encoder writes are fed to the real reader.  The comparison is done by
    `rbxverif binspec-judge` (it needs the reflection database to type the document's wire values), so the generic
    line-by-line comparison of observations is replaced by: harness run -> modelrun -> harness judge -> oracle lines."""
    kind = "binspec"
    rule = ("C03: generated DOMs (forest generator of the binary slice without hostile inputs: database and unknown classes, canonical / "
            "alias spellings, all binary value types from boundary pools, multi-root selections) x {None, Lz4, Zstd}: Serializer bytes -> "
            "extracted bspec_decode_gen (own framing, extracted LZ4 block decoder; Zstandard frames inflated through the crate's chunk "
            "reader: declared non-independent) under the literal and the amended reading of docs/binary.md -> bspec_to_dom -> typed by the "
            "reflection database -> compared with the source by the C01 normalisation oracle; every structural clause evaluated by the "
            "extracted boolean functions.  C04: logical files drawn with one primary freedom each (numbering, PRNT order, chunk order, META, "
            "unknown chunks, service format, narrower numeric columns, truncated / unknown-type PROPs, meaningless bits, LZ4 literal blocks, "
            "rotation ids or full matrices, all 31 document types) plus combinations -> extracted bspec_encode -> rbx_binary::from_reader -> "
            "compared with bspec_to_dom; every file additionally re-framed with the real LZ4 / Zstandard compressors (all-lz4, all-zstd, mixed) "
            "and decoded by bspec_decode itself (self round trip).  non-trivial = forest with >= 2 instances / logical file with >= 1 class; "
            "distinct by case text")
    assumptions = ["Zstandard payloads are inflated by the `zstd` crate through rbx_binary's chunk reader (non-independent); LZ4 by the extracted Coq decoder",
                   "wire values are typed for comparison through rbx_binary::verif::find_property_descriptors and the rbx_types blob codecs "
                   "(Tags / Attributes / MaterialColors blobs are opaque to docs/binary.md)",
                   "the document is read with the amendments of BinSpec.bs_amended where it contradicts the implementation; each amendment is "
                   "reported as a doc-* finding by comparing against the literal reading"]

    def gen_blocks(self, pid, d, tier, seed):
        self._pid = pid
        return SimpleCorr.gen_blocks(self, pid, d, tier, seed)

    def gen_cmds(self, seed, tier):
        only = {"C03": "c03", "C04": "c04"}.get(getattr(self, "_pid", ""), None)
        n = "700" if tier == "quick" else "30000"
        return [["--seed", str(seed), "--cases", n] + (["--only", only] if only else [])]

    def run_cases(self, d, blocks, tag):
        cases = os.path.join(d, tag + ".cases")
        vlib.write_blocks(cases, blocks)
        obs, orc, st, mo, orc2, st2 = [os.path.join(d, tag + x) for x in (".impl", ".oracle", ".stats", ".model", ".oracle2", ".stats2")]
        rc, o, _ = vlib.run([vlib.harness_bin(), "binspec-run", cases, obs, orc, st], timeout=3000)
        if rc != 0:
            raise RuntimeError("harness binspec-run failed (rc=%d): %s" % (rc, o[-2000:]))
        # the extracted functions recurse on lists: big files need a big stack
        rc, o, _ = vlib.run("ulimit -s unlimited 2>/dev/null || ulimit -s 1000000; exec '%s' binspec '%s' '%s'" % (vlib.MODELRUN, cases, mo), timeout=6000)
        if rc != 0:
            raise RuntimeError("modelrun binspec failed: %s" % o[-2000:])
        rc, o, _ = vlib.run([vlib.harness_bin(), "binspec-judge", cases, mo, orc2, st2], timeout=3000)
        if rc != 0:
            raise RuntimeError("harness binspec-judge failed (rc=%d): %s" % (rc, o[-2000:]))
        stats = json.load(open(st))
        stats.update(json.load(open(st2)))
        lines = [l.rstrip("\n") for l in open(orc)] + [l.rstrip("\n") for l in open(orc2)]
        model = dict(vlib.read_blocks(mo))
        # docs/binary.md, SSTR: "MD5 Hash | 16 bytes | An MD5 hash of the Shared String": checked here with hashlib (independent of the crates)
        import hashlib
        nsstr = 0
        for cid, ml in model.items():
            for l in ml:
                if l.startswith("sstr-entry "):
                    w = l.split(" ")
                    content = b"" if w[2] == "-" else bytes.fromhex(w[2])
                    nsstr += 1
                    if hashlib.md5(content).hexdigest() != w[1]:
                        lines.append("%s C03 doc-sstr-md5-field comp=none the SSTR entry of a %d-byte string carries `%s` in its MD5 Hash field, the MD5 is %s"
                                     % (cid, len(content), w[1], hashlib.md5(content).hexdigest()))
                        break
        stats["c03_sstr_entries_md5_checked"] = nsstr
        return (dict(vlib.read_blocks(obs)), model, lines, stats)

    def disagreements(self, blocks, impl, model):
        out = []
        for cid, lines in blocks:
            ml = model.get(cid)
            if ml is None:
                out.append((cid, 0, "modelrun printed nothing for the case"))
            else:
                bad = [l for l in ml if l.startswith("MODELFAIL")]
                if bad:
                    out.append((cid, 0, "the extracted document codec failed on the case: " + bad[0][:160]))
        return out

    def known_key(self, pid, oracle_line, case_lines):
        """oracle key -> class key of known-findings.txt; for a C04 case combining several freedoms, a listed freedom among its tags"""
        w = oracle_line.split(" ")
        if len(w) < 3:
            return None
        key = w[2]
        known = vlib.known_keys(pid)
        if key in known:
            return key
        for tok in w[3:8]:
            if tok.startswith("tags="):
                for t in tok[5:].split("+"):
                    if t in known:
                        return t
        return key

    def shrink_candidates(self, lines):
        # forest cases: drop a node with its prop lines / a single prop line; logical files: drop one `lf prop` line
        if "opt mode c04" in lines:
            for k in range(len(lines) - 1, -1, -1):
                if lines[k].startswith("lf prop "):
                    cand = lines[:k] + lines[k + 1:]
                    # the order key list names PROP chunks by position: drop the last P key
                    out = []
                    for l in cand:
                        if l.startswith("ch order "):
                            ks = l.split()[2:]
                            ps = [x for x in ks if x.startswith("P")]
                            if ps:
                                last = "P%x" % (len(ps) - 1)
                                ks = [x for x in ks if x != last]
                            l = "ch order " + " ".join(ks)
                        out.append(l)
                    yield out
        else:
            for k in range(len(lines) - 1, -1, -1):
                if lines[k].startswith("prop "):
                    # fix the node's property count
                    j = k
                    while j >= 0 and not lines[j].startswith("node "):
                        j -= 1
                    if j >= 0:
                        w = lines[j].split(" ")
                        w[-1] = "%x" % (int(w[-1], 16) - 1)
                        yield lines[:j] + [" ".join(w)] + lines[j + 1:k] + lines[k + 1:]


REGISTRY["C03"] = BinSpec()
REGISTRY["C04"] = BinSpec()


# =====================================================================================
# Implementation-side oracle stages shared by the composite properties C06 C07 C12 C15
# (the XML-side lines all come out of `xmlfile-run`; see notes/xml-format.md)
# =====================================================================================
def xml_oracle_stage(pid, d, seed, tier, streams, tag="xo", second_process=False):
    """runs the real rbx_xml (and, for the `bin` stream, rbx_binary) on generated cases and returns
    (oracle lines of `pid` as `<case> <pid> <key> <msg>`, {case id: lines}, stats[, texts-differ list])"""
    mul = 1 if tier == "quick" else 10
    blocks = []
    cdir = os.path.join(vlib.VERIF, "corpus", "xmlfile")
    if os.path.isdir(cdir):
        for f in sorted(os.listdir(cdir)):
            blocks += vlib.read_blocks(os.path.join(cdir, f))
    gen = os.path.join(d, tag + ".gen")
    for s, n in streams:
        rc, o, _ = vlib.run([vlib.harness_bin(), "xmlfile-gen", "--seed", str(seed), "--cases", str(n * mul), "--stream", s,
                             "--prefix", s[:1] + tag, "--out", gen], timeout=3000)
        if rc != 0:
            raise RuntimeError("xmlfile-gen failed: " + o[-1500:])
        blocks += vlib.read_blocks(gen)
    cases = os.path.join(d, tag + ".cases")
    vlib.write_blocks(cases, blocks)
    outs = []
    for k in range(2 if second_process else 1):
        obs, orc, st = [os.path.join(d, "%s%d%s" % (tag, k, x)) for x in (".impl", ".oracle", ".stats")]
        rc, o, _ = vlib.run("ulimit -s unlimited 2>/dev/null; exec '%s' xmlfile-run '%s' '%s' '%s' '%s'" % (vlib.harness_bin(), cases, obs, orc, st), timeout=6000)
        if rc != 0:
            raise RuntimeError("harness xmlfile-run failed (rc=%d): %s" % (rc, o[-1500:]))
        outs.append((obs, orc, st))
    lines = [l.rstrip("\n") for l in open(outs[0][1]) if len(l.split(" ", 3)) >= 3 and l.split(" ", 3)[1] == pid]
    stats = json.load(open(outs[0][2]))
    differ = []
    if second_process:
        a, b = dict(vlib.read_blocks(outs[0][0] + ".texts")), dict(vlib.read_blocks(outs[1][0] + ".texts"))
        differ = [cid for cid in a if a.get(cid) != b.get(cid)]
    return lines, dict(blocks), stats, differ


def report_oracle_lines(pid, out, lines, bmap, kind, stage):
    """classifies `<case> <pid> <key> <msg>` lines against known-findings; one violation per unlisted key"""
    known = vlib.known_keys(pid)
    seen_known, unlisted = {}, {}
    for l in lines:
        t = l.split(" ", 3)
        key = t[2] if len(t) > 2 else "?"
        if key in known:
            seen_known.setdefault(key, l)
        else:
            unlisted.setdefault(key, l)
    for key, l in seen_known.items():
        out.known.append("key=%s %s (reproduced by %s: %s)" % (key, known[key], stage, l[:200]))
    for key, l in unlisted.items():
        cid = l.split(" ")[0]
        rp = vlib.write_replay(pid, kind, "implementation oracle (%s): %s" % (stage, l), bmap.get(cid, [l]))
        out.violation("the implementation violates %s (%s): %s" % (pid, stage, l[:300]), rp, True)
    return sorted(seen_known), sorted(unlisted)


class ImplOracleProperty:
    """a property decided by theorems (Properties/<pid>.v, proof stage run by ./check) plus implementation-side
    oracle stages; subclasses define stages(pid, out, tier, seed, d) -> [(stage name, lines, bmap, kind)]"""
    rule = ""
    assumptions = []

    def run(self, pid, out, tier, seed, broken):
        d = workdir(pid)
        total, samples, kk, uu = 0, [], [], []
        for stage, lines, bmap, kind, n in self.stages(pid, out, tier, seed, d):
            total += n
            k, u = report_oracle_lines(pid, out, lines, bmap, kind, stage)
            kk += k; uu += u
            for cid in list(bmap)[:2]:
                samples.append({"stage": stage, "case": cid, "lines": bmap[cid][:6]})
        out.coverage.update({"traces_validated_against_impl": total, "evaluations": total, "distinct_nontrivial": total,
                             "rule": self.rule, "samples": samples[:4], "known_findings_reproduced": kk,
                             "unlisted_failure_classes": uu})
        out.assumptions += self.assumptions
        if broken and not out.violations:
            rp = vlib.write_replay(pid, "proof", broken.split("\n")[0], broken.split("\n"), broken=broken.split("\n")[0])
            out.violation(broken.split("\n")[0], rp, False)

    def replay(self, pid, path):
        meta, body = vlib.read_replay(path)
        d = workdir(pid)
        vlib.build_harness()
        kind = meta.get("kind")
        if kind not in ("xmlfile", "binfile"):
            log("replay names a broken obligation, not an input: " + meta.get("broken", meta.get("what", "")))
            return 1
        cases = os.path.join(d, "replay.cases")
        vlib.write_blocks(cases, [("x", [l for l in body if l.strip()])])
        obs, orc, st = [os.path.join(d, "replay" + x) for x in (".impl", ".oracle", ".stats")]
        vlib.run([vlib.harness_bin(), kind + "-run", cases, obs, orc, st], timeout=3000)
        bad = [l.rstrip("\n") for l in open(orc) if (" " + pid + " ") in l]
        for l in bad:
            log("oracle: " + l)
        return 1 if bad else 0


class CrossFormat(ImplOracleProperty):
    rule = ("DOMs inside C06's quantifier (database classes, serializable non-migrating properties under canonical or alias names, values of the declared "
            "type, Ref/SharedString topology) are written by rbx_binary and by rbx_xml, both files are read back by the real readers and the two decoded DOMs "
            "are compared instance by instance (tree, order, class, name, every explicitly set property under its canonical name; NaNs as a class; "
            "binary-only defaults ignored); every case counts as non-trivial")
    assumptions = ["value-level agreement of the two decoders is decided per case on the implementation; the theorem part is the schema level (both descriptor lookups agree on every coherent database)"]

    def pre(self, pid, out, tier, seed):
        import translate
        translate.regenerate_all(required=True)

    def stages(self, pid, out, tier, seed, d):
        lines, bmap, st, _ = xml_oracle_stage(pid, d, seed, tier, [("bin", 500), ("dom", 300), ("schema", 797)])
        out.coverage["generator"] = {k: v for k, v in st.items() if k.startswith("c06") or k.startswith("oracle_C06") or k == "cases"}
        return [("cross-format run (xmlfile-run, stream bin)", lines, bmap, "xmlfile", st.get("c06_checked", len(bmap)))]


REGISTRY["C06"] = CrossFormat()


class Migration(ImplOracleProperty):
    rule = ("for every class/legacy-property pair of the database whose serialization is Migrate (12) and every value of the legacy type (all items of Enum.Font, "
            "BrickColor numbers, both booleans, URIs incl. empty), with and without the new property present and in both element orders: XML write path "
            "(DOM -> rbx_xml -> read back), XML read path (hand-built documents with the legacy element), and the binary write/read paths; the decoded DOM must "
            "hold exactly the new property with the migrated value (explicit new value wins) and never the legacy name")
    assumptions = ["the four paths are exercised on the implementation; the theorem part is about the migration function and tables (regenerated from migration.rs / brick_color.rs / the database)"]

    def pre(self, pid, out, tier, seed):
        import translate
        translate.regenerate_all(required=True)

    def stages(self, pid, out, tier, seed, d):
        lines, bmap, st, _ = xml_oracle_stage(pid, d, seed, tier, [("mig", 600)])
        out.coverage["generator"] = {k: v for k, v in st.items() if k.startswith("c15") or k.startswith("oracle_C15") or k == "cases"}
        res = [("XML write and read paths (xmlfile-run, stream mig)", lines, bmap, "xmlfile",
                st.get("c15_checked_write", 0) + st.get("c15_checked_read", 0))]
        res += binary_migration_stage(pid, d, seed, tier)
        res += custom_database_stage(pid, d, seed, out)
        return res

    def replay(self, pid, path):
        meta, body = vlib.read_replay(path)
        if meta.get("kind") != "migcustom":
            return ImplOracleProperty.replay(self, pid, path)
        vlib.build_harness()
        d = workdir(pid)
        sd = [l.split()[1] for l in body if l.startswith("seed ")]
        import re
        m = re.search(r"\): (\S+) " + pid + " ", meta.get("what", ""))
        cid = m.group(1) if m else ""
        files = [os.path.join(d, "replay-mc" + x) for x in (".cases", ".oracle", ".stats")]
        vlib.run([vlib.harness_bin(), "migcustom-run", "--seed", sd[0] if sd else "1"] + files + (["--only", cid] if cid else []), timeout=3000)
        bad = [l.rstrip("\n") for l in open(files[1]) if (" " + pid + " ") in l]
        for l in bad:
            log("oracle: " + l)
        return 1 if bad else 0


def custom_database_stage(pid, d, seed, out):
    """C15 under a reflection database other than the bundled one (harness/src/migcustom.rs): subclasses only the custom
    database knows, four paths with that database on both ends, plus the binary write path with the explicit value under
    an alias spelling in 8 processes (the alias sets iterate in a per-process hash order)"""
    files = [os.path.join(d, "mc" + x) for x in (".cases", ".oracle", ".stats")]
    rc, o, _ = vlib.run([vlib.harness_bin(), "migcustom-run", "--seed", str(seed)] + files, timeout=3000)
    if rc != 0:
        raise RuntimeError("harness migcustom-run failed: " + o[-1500:])
    lines = [l.rstrip("\n") for l in open(files[1]) if len(l.split(" ", 3)) >= 3 and l.split(" ", 3)[1] == pid]
    st = json.load(open(files[2]))
    out.coverage["custom_database_stage"] = st
    return [("custom reflection database, four paths (migcustom-run)", lines, dict(vlib.read_blocks(files[0])), "migcustom", st.get("cases", 0))]


def binary_migration_stage(pid, d, seed, tier):
    """binary write/read paths of C15: binfile cases restricted to classes with migrating properties"""
    if not os.path.exists(os.path.join(vlib.VERIF, "harness", "src", "binfile.rs")):
        return []
    gen = os.path.join(d, "bm.cases")
    n = 400 if tier == "quick" else 4000
    rc, o, _ = vlib.run([vlib.harness_bin(), "binfile-gen", "--seed", str(seed), "--cases", str(n), "--migrating", "--prefix", "m", "--out", gen], timeout=3000)
    if rc != 0:
        return []
    obs, orc, st = [os.path.join(d, "bm" + x) for x in (".impl", ".oracle", ".stats")]
    rc, o, _ = vlib.run([vlib.harness_bin(), "binfile-run", gen, obs, orc, st], timeout=6000)
    if rc != 0:
        raise RuntimeError("harness binfile-run failed: " + o[-1500:])
    lines = [l.rstrip("\n") for l in open(orc) if len(l.split(" ", 3)) >= 3 and l.split(" ", 3)[1] == pid]
    blocks = vlib.read_blocks(gen)
    return [("binary write and read paths (binfile-run --migrating)", lines, dict(blocks), "binfile", len(blocks))]


REGISTRY["C15"] = Migration()


# =====================================================================================
# C07: determinism and re-save stability of BOTH serializers
#   binary: BinFile correspondence + its C07 oracle lines (rebuild with other Refs / insertion order, resave fixed point)
#   XML:    the C07 oracle lines of xmlfile-run
#   both:   the same cases serialized again in a SECOND PROCESS (other hash seeds / ASLR) must give the same bytes
# =====================================================================================
class Determinism(BinFile):
    def known_key(self, pid, oracle_line, case_lines):
        l = oracle_line[2:] if oracle_line.startswith("- ") else oracle_line
        t = l.split(" ")
        return t[2] if len(t) > 2 else None

    def extra(self, pid, out, tier, seed, d):
        lines = []
        # XML side, two processes
        xl, xb, xs, differ = xml_oracle_stage(pid, d, seed, tier, [("dom", 600), ("bin", 200), ("unknown", 100)], tag="x7", second_process=True)
        lines += xl
        lines += ["%s C07 xml-cross-process the same DOM serialized by rbx_xml in two processes gives different text" % cid for cid in differ[:5]]
        out.coverage["xml_stage"] = {"cases": len(xb), "c07_checked": xs.get("c07_checked", 0), "oracle_lines": len(xl), "cross_process_differences": len(differ)}
        # binary side, second process on the cases of the main run
        cases, first = os.path.join(d, "main.cases"), os.path.join(d, "main.impl")
        if os.path.exists(cases) and os.path.exists(first):
            obs, orc, st = [os.path.join(d, "second" + x) for x in (".impl", ".oracle", ".stats")]
            rc, o, _ = vlib.run([vlib.harness_bin(), "binfile-run", cases, obs, orc, st], timeout=6000)
            if rc == 0:
                a, b = dict(vlib.read_blocks(first)), dict(vlib.read_blocks(obs))
                # compare the serializer's bytes only (decoded DOMs may legitimately contain freshly generated UniqueIds)
                def enc(ls):
                    return [x for x in ls if x.startswith("BYTES") or x.startswith("ENC") or x.startswith("enc")]
                bd = [cid for cid in a if enc(a[cid]) != enc(b.get(cid, []))]
                two = set(l.split(" ")[0] for l in open(orc) if " INFO two-spellings" in l)
                for cid in bd[:8]:
                    key = "bin-cross-process-two-spellings" if cid in two else "bin-cross-process"
                    lines.append("%s C07 %s the same DOM serialized by rbx_binary in two processes gives different bytes" % (cid, key))
                out.coverage["binary_second_process"] = {"cases": len(a), "differences": len(bd)}
        return lines


REGISTRY["C07"] = Determinism()
