From Coq Require Import List Arith Lia Bool.
Import ListNotations.

(* Abstract intern table: buffers are nat ids, hashes are nat. *)
Record st := { table : nat -> option nat;      (* hash -> Weak<buf> *)
               hashof : nat -> nat;            (* content hash of a buffer *)
               cnt : nat -> nat;               (* strong count; 0 = dead / unallocated *)
               pend : list nat;                (* buffers whose last handle was released, clean-up not yet run *)
               next : nat }.                   (* next fresh buffer id *)

Definition upd {A} (f : nat -> A) (k : nat) (v : A) : nat -> A := fun x => if Nat.eqb x k then v else f x.
Definition alive (s : st) (b : nat) : bool := negb (Nat.eqb (cnt s b) 0).

Inductive op := New (h : nat) | Clone (b : nat) | DropA (b : nat) | DropB (b : nat).

Fixpoint remove1 (b : nat) (l : list nat) : list nat :=
  match l with [] => [] | x :: r => if Nat.eqb x b then r else x :: remove1 b r end.

(* fixed = true: repaired Drop (remove slot only if its occupant is dead); false: pinned code *)
Definition step (fixed : bool) (s : st) (o : op) : option st :=
  match o with
  | New h =>
      match table s h with
      | Some b => if alive s b then Some {| table := table s; hashof := hashof s; cnt := upd (cnt s) b (S (cnt s b)); pend := pend s; next := next s |}
                  else let b' := next s in
                       Some {| table := upd (table s) h (Some b'); hashof := upd (hashof s) b' h; cnt := upd (cnt s) b' 1; pend := pend s; next := S b' |}
      | None => let b' := next s in
                Some {| table := upd (table s) h (Some b'); hashof := upd (hashof s) b' h; cnt := upd (cnt s) b' 1; pend := pend s; next := S b' |}
      end
  | Clone b => if alive s b then Some {| table := table s; hashof := hashof s; cnt := upd (cnt s) b (S (cnt s b)); pend := pend s; next := next s |} else None
  | DropA b =>
      match cnt s b with
      | 0 => None
      | 1 => Some {| table := table s; hashof := hashof s; cnt := upd (cnt s) b 0; pend := b :: pend s; next := next s |}
      | S n => Some {| table := table s; hashof := hashof s; cnt := upd (cnt s) b n; pend := pend s; next := next s |}
      end
  | DropB b =>
      if existsb (Nat.eqb b) (pend s) then
        let h := hashof s b in
        let t' := if fixed then match table s h with
                                | Some b' => if alive s b' then table s else upd (table s) h None
                                | None => table s end
                  else upd (table s) h None in
        Some {| table := t'; hashof := hashof s; cnt := cnt s; pend := remove1 b (pend s); next := next s |}
      else None
  end.

Definition init : st := {| table := fun _ => None; hashof := fun _ => 0; cnt := fun _ => 0; pend := []; next := 0 |}.

Fixpoint run (fixed : bool) (s : st) (os : list op) : option st :=
  match os with [] => Some s | o :: r => match step fixed s o with Some s' => run fixed s' r | None => None end end.

(* Refutation on the pinned code: two live buffers with the same hash. *)
Example dedup_refuted :
  exists s, run false init [New 7; DropA 0; New 7; DropB 0; New 7] = Some s /\
            alive s 1 = true /\ alive s 2 = true /\ hashof s 1 = hashof s 2 /\ 1 <> 2.
Proof. eexists. split; [vm_compute; reflexivity|]. vm_compute. repeat split; auto; discriminate. Qed.

(* Invariant for the repaired code. *)
Definition Inv (s : st) : Prop :=
  (forall b, cnt s b > 0 -> b < next s /\ table s (hashof s b) = Some b) /\
  (forall h b, table s h = Some b -> b < next s /\ hashof s b = h /\ (cnt s b = 0 -> In b (pend s))) /\
  (forall b, In b (pend s) -> b < next s /\ cnt s b = 0) /\
  NoDup (pend s).

Lemma inv_init : Inv init.
Proof. unfold Inv, init; simpl. repeat split; try (intros; lia); try discriminate; try contradiction. constructor. Qed.

Lemma upd_same {A} f k (v : A) : upd f k v k = v.
Proof. unfold upd. now rewrite Nat.eqb_refl. Qed.
Lemma upd_other {A} f k (v : A) x : x <> k -> upd f k v x = f x.
Proof. unfold upd. intros H. apply Nat.eqb_neq in H. now rewrite H. Qed.

Lemma in_remove1 b x l : In x (remove1 b l) -> In x l.
Proof. induction l as [|a l IH]; simpl; auto. destruct (Nat.eqb a b); simpl; intuition. Qed.
Lemma remove1_keeps b x l : x <> b -> In x l -> In x (remove1 b l).
Proof. induction l as [|a l IH]; simpl; auto. intros Hne [->|Hin].
  - apply Nat.eqb_neq in Hne. rewrite Hne. now left.
  - destruct (Nat.eqb a b); simpl; auto. Qed.
Lemma nodup_remove1 b l : NoDup l -> NoDup (remove1 b l) /\ ~ In b (remove1 b l).
Proof. induction 1 as [|a l Ha Hl IH]; simpl. { split; [constructor|auto]. }
  destruct (Nat.eqb a b) eqn:E.
  - apply Nat.eqb_eq in E; subst. auto.
  - destruct IH as [IH1 IH2]. split.
    + constructor; auto. intros Hin. apply Ha. eapply in_remove1; eauto.
    + simpl. intros [->|Hin]; auto. now rewrite Nat.eqb_refl in E. Qed.

Ltac upd_simpl :=
  repeat match goal with
  | |- context [upd ?f ?k ?v ?k] => rewrite (upd_same f k v)
  | H : context [upd ?f ?k ?v ?k] |- _ => rewrite (upd_same f k v) in H
  | Hne : ?x <> ?k |- context [upd ?f ?k ?v ?x] => rewrite (upd_other f k v x Hne)
  | Hne : ?x <> ?k, H : context [upd ?f ?k ?v ?x] |- _ => rewrite (upd_other f k v x Hne) in H
  end.

Lemma alive_pos s b : alive s b = true <-> cnt s b > 0.
Proof. unfold alive. destruct (cnt s b); simpl; split; intros; try lia; auto; discriminate. Qed.
Lemma dead_zero s b : alive s b = false <-> cnt s b = 0.
Proof. unfold alive. destruct (cnt s b); simpl; split; intros; try lia; auto; discriminate. Qed.

(* allocation of a fresh buffer into slot h whose occupant (if any) is dead *)
Lemma inv_alloc s h :
  Inv s -> (forall b, table s h = Some b -> cnt s b = 0) ->
  Inv {| table := upd (table s) h (Some (next s)); hashof := upd (hashof s) (next s) h;
         cnt := upd (cnt s) (next s) 1; pend := pend s; next := S (next s) |}.
Proof.
  intros (A & B & C & D) Hdead. unfold Inv; simpl. repeat split.
  - destruct (Nat.eq_dec b (next s)) as [->|Hne]; [lia|]. upd_simpl. destruct (A b H); lia.
  - destruct (Nat.eq_dec b (next s)) as [->|Hne]; upd_simpl; [reflexivity|].
    destruct (A b H) as [Hlt Ht].
    destruct (Nat.eq_dec (hashof s b) h) as [Hh|Hh].
    + subst h. specialize (Hdead b Ht). lia.
    + now rewrite (upd_other _ _ _ _ Hh).
  - destruct (Nat.eq_dec h0 h) as [->|Hh].
    + rewrite upd_same in H. injection H as <-. lia.
    + rewrite (upd_other _ _ _ _ Hh) in H. destruct (B _ _ H); lia.
  - destruct (Nat.eq_dec h0 h) as [->|Hh].
    + rewrite upd_same in H. injection H as <-. now rewrite upd_same.
    + rewrite (upd_other _ _ _ _ Hh) in H. destruct (B _ _ H) as (Hlt & Hho & _).
      assert (b <> next s) by lia. now rewrite (upd_other _ _ _ _ H0).
  - destruct (Nat.eq_dec h0 h) as [->|Hh].
    + rewrite upd_same in H. injection H as <-. rewrite upd_same. discriminate.
    + rewrite (upd_other _ _ _ _ Hh) in H. destruct (B _ _ H) as (Hlt & Hho & Hp).
      assert (b <> next s) by lia. rewrite (upd_other _ _ _ _ H0). exact Hp.
  - destruct (C _ H); lia.
  - destruct (C _ H) as [Hlt Hc]. assert (b <> next s) by lia. now rewrite (upd_other _ _ _ _ H0).
  - exact D.
Qed.

(* changing the count of a live buffer to another positive value *)
Lemma inv_recount s b n :
  Inv s -> cnt s b > 0 -> n > 0 ->
  Inv {| table := table s; hashof := hashof s; cnt := upd (cnt s) b n; pend := pend s; next := next s |}.
Proof.
  intros (A & B & C & D) Hb Hn. unfold Inv; simpl. repeat split.
  - destruct (Nat.eq_dec b0 b) as [->|Hne]; [apply (A b Hb)|]. rewrite (upd_other _ _ _ _ Hne) in H. apply (A _ H).
  - destruct (Nat.eq_dec b0 b) as [->|Hne]; [apply (A b Hb)|]. rewrite (upd_other _ _ _ _ Hne) in H. apply (A _ H).
  - apply (B _ _ H).
  - apply (B _ _ H).
  - destruct (Nat.eq_dec b0 b) as [->|Hne]; [rewrite upd_same; lia|]. rewrite (upd_other _ _ _ _ Hne). apply (B _ _ H).
  - apply (C _ H).
  - destruct (C _ H) as [_ Hc]. destruct (Nat.eq_dec b0 b) as [->|Hne]; [lia|]. now rewrite (upd_other _ _ _ _ Hne).
  - exact D.
Qed.

Theorem inv_step s o s' : Inv s -> step true s o = Some s' -> Inv s'.
Proof.
  intros HI Hs. destruct o as [h|b|b|b]; simpl in Hs.
  - destruct (table s h) as [b|] eqn:Et.
    + destruct (alive s b) eqn:Ea; injection Hs as <-.
      * apply alive_pos in Ea. apply inv_recount; auto; lia.
      * apply dead_zero in Ea. apply inv_alloc; auto. intros b0 Hb0. rewrite Et in Hb0. now injection Hb0 as <-.
    + injection Hs as <-. apply inv_alloc; auto. intros b0 Hb0. rewrite Et in Hb0. discriminate.
  - destruct (alive s b) eqn:Ea; [|discriminate]. injection Hs as <-.
    apply alive_pos in Ea. apply inv_recount; auto; lia.
  - destruct (cnt s b) as [|[|n]] eqn:Ec; [discriminate| |]; injection Hs as <-.
    + (* last handle released *)
      destruct HI as (A & B & C & D). unfold Inv; simpl. repeat split.
      * destruct (Nat.eq_dec b0 b) as [->|Hne]; [rewrite upd_same in H; lia|]. rewrite (upd_other _ _ _ _ Hne) in H. apply (A _ H).
      * destruct (Nat.eq_dec b0 b) as [->|Hne]; [rewrite upd_same in H; lia|]. rewrite (upd_other _ _ _ _ Hne) in H. apply (A _ H).
      * apply (B _ _ H).
      * apply (B _ _ H).
      * intros Hz. destruct (Nat.eq_dec b0 b) as [->|Hne]; [now left|]. rewrite (upd_other _ _ _ _ Hne) in Hz. right. now apply (B _ _ H).
      * destruct H as [<-|H]; [apply A; lia | apply (C _ H)].
      * destruct H as [<-|H]; [now rewrite upd_same|]. destruct (C _ H) as [_ Hc].
        destruct (Nat.eq_dec b0 b) as [->|Hne]; [lia|]. now rewrite (upd_other _ _ _ _ Hne).
      * constructor; auto. intros Hin. destruct (C _ Hin). lia.
    + apply inv_recount; auto; lia.
  - destruct (existsb (Nat.eqb b) (pend s)) eqn:Ex; [|discriminate]. injection Hs as <-.
    apply existsb_exists in Ex. destruct Ex as (x & Hx & Hxb). apply Nat.eqb_eq in Hxb. subst x.
    destruct HI as (A & B & C & D). destruct (C _ Hx) as [Hblt Hbz].
    destruct (nodup_remove1 b _ D) as [D' Hnb].
    assert (Keep : forall b0, In b0 (pend s) -> b0 <> b -> In b0 (remove1 b (pend s))) by (intros; now apply remove1_keeps).
    destruct (table s (hashof s b)) as [b'|] eqn:Et.
    + destruct (alive s b') eqn:Ea.
      * apply alive_pos in Ea. unfold Inv; simpl. repeat split; auto; try (intros; apply (A _ H)); try (intros; apply (B _ _ H)).
        -- intros Hz. destruct (B _ _ H) as (_ & Hh & Hp). apply Keep; auto. intros ->.
           rewrite Hh in Et. rewrite H in Et. injection Et as <-. lia.
        -- intros. apply C. eapply in_remove1; eauto.
        -- intros. apply C. eapply in_remove1; eauto.
      * apply dead_zero in Ea. unfold Inv; simpl. repeat split; auto.
        -- apply (A _ H).
        -- destruct (A _ H) as [_ Ht]. destruct (Nat.eq_dec (hashof s b0) (hashof s b)) as [E|E].
           ++ rewrite E in Ht. rewrite Ht in Et. injection Et as <-. lia.
           ++ now rewrite (upd_other _ _ _ _ E).
        -- destruct (Nat.eq_dec h (hashof s b)) as [->|E]; [rewrite upd_same in H; discriminate|].
           rewrite (upd_other _ _ _ _ E) in H. apply (B _ _ H).
        -- destruct (Nat.eq_dec h (hashof s b)) as [->|E]; [rewrite upd_same in H; discriminate|].
           rewrite (upd_other _ _ _ _ E) in H. apply (B _ _ H).
        -- intros Hz. destruct (Nat.eq_dec h (hashof s b)) as [->|E]; [rewrite upd_same in H; discriminate|].
           rewrite (upd_other _ _ _ _ E) in H. destruct (B _ _ H) as (_ & Hh & Hp). apply Keep; auto.
           intros ->. congruence.
        -- intros. apply C. eapply in_remove1; eauto.
        -- intros. apply C. eapply in_remove1; eauto.
    + unfold Inv; simpl. repeat split; auto; try (intros; apply (A _ H)); try (intros; apply (B _ _ H)).
      -- intros Hz. destruct (B _ _ H) as (_ & Hh & Hp). apply Keep; auto. intros ->. congruence.
      -- intros. apply C. eapply in_remove1; eauto.
      -- intros. apply C. eapply in_remove1; eauto.
Qed.

Theorem inv_reachable os s : run true init os = Some s -> Inv s.
Proof.
  assert (G : forall os s0 s, Inv s0 -> run true s0 os = Some s -> Inv s).
  { induction os0 as [|o os0 IH]; simpl; intros s0 s1 H0 Hr. { now injection Hr as <-. }
    destruct (step true s0 o) eqn:E; [|discriminate]. eapply IH; [eapply inv_step; eauto|exact Hr]. }
  apply G. apply inv_init.
Qed.

(* Corollaries: one live buffer per hash; table empty at quiescence. *)
Corollary share_single_buffer os s b1 b2 :
  run true init os = Some s -> cnt s b1 > 0 -> cnt s b2 > 0 -> hashof s b1 = hashof s b2 -> b1 = b2.
Proof.
  intros Hr H1 H2 Hh. destruct (inv_reachable _ _ Hr) as (A & _).
  destruct (A _ H1) as [_ T1]. destruct (A _ H2) as [_ T2]. rewrite Hh in T1. congruence.
Qed.
Corollary quiescent_table_empty os s :
  run true init os = Some s -> pend s = [] -> (forall b, cnt s b = 0) -> forall h, table s h = None.
Proof.
  intros Hr Hp Hc h. destruct (inv_reachable _ _ Hr) as (_ & B & _).
  destruct (table s h) as [b|] eqn:E; auto. destruct (B _ _ E) as (_ & _ & Hin).
  specialize (Hin (Hc b)). rewrite Hp in Hin. contradiction.
Qed.
Print Assumptions share_single_buffer.
Print Assumptions quiescent_table_empty.
